#!/bin/bash
# seedconfirm.sh <patch.diff> <demo_test.go> : confirms a seeded defect in a scratch
# worktree outside /repo and /verif: demo passes on the clean tree, patch applies and
# builds, demo fails with it, the existing suite (unedited) passes with it.
# Prints CONFIRMED or REJECTED <why>; exit 0 only if confirmed.
set -u
patch=$1; demo=$2
export GOFLAGS=-mod=mod GOPROXY=off
wt=$(mktemp -d /tmp/seedconfirm_XXXX); rmdir $wt
git -C /repo worktree prune; git -C /repo worktree add -q --detach $wt HEAD || exit 2
trap "git -C /repo worktree remove --force $wt >/dev/null 2>&1" EXIT
cd $wt
cp $demo ./zz_seed_demo_test.go
go test -count=1 -timeout 120s -run 'TestSeedDemo' . >/dev/null 2>&1 || { echo "REJECTED demo fails on clean tree"; exit 1; }
git apply $patch || { echo "REJECTED patch does not apply"; exit 1; }
go build ./... || { echo "REJECTED does not build"; exit 1; }
go test -count=1 -timeout 120s -run 'TestSeedDemo' . >/dev/null 2>&1 && { echo "REJECTED demo passes with patch"; exit 1; }
rm -f zz_seed_demo_test.go
go test -count=1 ./... >/dev/null 2>&1 || { echo "REJECTED existing suite fails with patch"; exit 1; }
echo CONFIRMED
