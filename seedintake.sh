#!/bin/bash
# seedintake.sh <round> <srcdir> <related-props...> : confirms one delivered seeded defect
# (srcdir holds patch.diff, demo_test.go, notes.json; its name starts with Cxx) and stores it
# as seeded/Cxx-<next n>/ with a meta.json. Related properties = the checks seedmatrix.sh runs.
set -u
round=$1; src=$2; shift 2
prop=$(basename $src | cut -c1-3)
[ -f $src/patch.diff ] && [ -f $src/demo_test.go ] || { echo "$src: incomplete"; exit 1; }
res=$(/verif/seedconfirm.sh $src/patch.diff $src/demo_test.go 2>&1 | tail -1)
if [ "$res" != "CONFIRMED" ]; then echo "$src: $res"; exit 1; fi
n=1; while [ -d /verif/seeded/$prop-$n ]; do n=$((n+1)); done
d=/verif/seeded/$prop-$n; mkdir -p $d
cp $src/patch.diff $d/patch.diff; cp $src/demo_test.go $d/demo_test.go
python3 - "$src/notes.json" "$d/meta.json" "$prop-$n" "$prop" "$round" "$@" <<'P'
import json,sys
notes=json.load(open(sys.argv[1])); out,sid,prop,rnd=sys.argv[2:6]; rel=[prop]+[p for p in sys.argv[6:] if p!=prop]
json.dump({"id":sid,"breaks_property":prop,"related_properties":rel,"change":notes.get("change",""),"needs_to_manifest":notes.get("needs_to_manifest",""),
 "written_by":"independent sub-agent (round %s) given only the property text and a scratch worktree"%rnd,
 "verified":"seedconfirm.sh in a scratch worktree: demo passes on clean tree, patch applies and builds, demo fails with it, existing suite passes with it",
 "checks_run":[],"caught_by":[],"missed_by":[]},open(out,'w'),indent=1)
P
echo "$src -> $prop-$n CONFIRMED"
