#!/bin/bash
# Runs every claimed check once (quick tier by default) and prints a summary table.
tier=${1:-quick}
for i in $(seq -w 1 20); do
  p=C$i
  s=$(date +%s)
  out=$(timeout 3000 bin/vcheck run -p $p -tier $tier 2>&1)
  rc=$?
  e=$(( $(date +%s) - s ))
  echo "$p rc=$rc ${e}s $(echo "$out" | grep '^RESULT' | cut -c1-200)"
  echo "$out" | grep "^VIOLATION\|^ENCODING\|NOT-CLAIMED\|INTERNAL" | cut -c1-200 | head -5
done
