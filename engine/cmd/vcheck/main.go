package main

import (
	"flag"
	"fmt"
	"os"
	"path/filepath"
	"strings"
	"time"

	"symgo/sym"
)

func loadOverlay(harnessDir, repo string) map[string][]byte {
	if ov, _, err := sym.BuildOverlay(filepath.Dir(harnessDir), repo, false); err == nil {
		return ov
	}
	ov := map[string][]byte{}
	files, _ := filepath.Glob(filepath.Join(harnessDir, "*.go"))
	for _, f := range files {
		data, err := os.ReadFile(f)
		if err != nil {
			panic(err)
		}
		base := filepath.Base(f)
		ov[filepath.Join(repo, "zz_verif_"+base)] = data
	}
	return ov
}

func verifDir() string {
	if d := os.Getenv("VERIF_DIR"); d != "" {
		return d
	}
	return "/verif"
}

func main() {
	if len(os.Args) < 2 {
		fmt.Println("usage: vcheck run|explore ...")
		os.Exit(2)
	}
	switch os.Args[1] {
	case "selftest":
		w, err := sym.LoadWorld("/repo", loadOverlay(verifDir()+"/harness", "/repo"))
		if err != nil {
			fmt.Println("load error:", err)
			os.Exit(3)
		}
		solver, _ := sym.NewSolver("z3", 10000)
		t0 := time.Now()
		r := w.SelfTest([]string{"/repo/testdata/compliance", "/repo/testdata/extra"}, solver, 0)
		fmt.Printf("selftest: %d/%d pass in %.1fs\n", r.Pass, r.Total, time.Since(t0).Seconds())
		for _, f := range r.Failures {
			fmt.Println("  FAIL", f)
		}
		bad := w.SymbolicSelfTest()
		for _, b := range bad {
			fmt.Println("  SYMBOLIC-FAIL", b)
		}
		fmt.Printf("symbolic selftest: %d failures\n", len(bad))
		if r.Pass != r.Total || len(bad) > 0 {
			os.Exit(1)
		}
	case "run":
		fs := flag.NewFlagSet("run", flag.ExitOnError)
		prop := fs.String("p", "", "property id")
		tier := fs.String("tier", os.Getenv("VERIF_TIER"), "quick|thorough")
		workers := fs.Int("j", 16, "")
		only := fs.String("h", "", "only these harnesses")
		maxSec := fs.Int("sec", 0, "time budget override")
		noReplay := fs.Bool("noreplay", false, "")
		repoDir := fs.String("repo", "/repo", "repository tree to check (scratch worktrees for seeded-defect evaluation)")
		tag := fs.String("tag", "", "scratch tag: separate output / evidence location")
		stopAfter := fs.Int("stopafter", 0, "stop exploring after this many candidate findings (seeded-defect evaluation; 0 = explore everything)")
		fs.Parse(os.Args[2:])
		if *tier == "" {
			*tier = "quick"
		}
		var seed int64
		fmt.Sscan(os.Getenv("VERIF_SEED"), &seed)
		cfg := &sym.CheckConfig{Property: *prop, Tier: *tier, Seed: seed, RepoDir: *repoDir, VerifDir: verifDir(), Workers: *workers, OnlyH: *only, MaxSec: *maxSec, NoReplay: *noReplay, Tag: *tag, StopAfter: *stopAfter}
		out := sym.RunCheck(cfg)
		os.Exit(out.ExitCode)
	case "refcheck":
		// native validation of the reference model against the corpus
		cfg := &sym.CheckConfig{RepoDir: "/repo", VerifDir: verifDir(), Tier: "quick"}
		out, err := sym.NativeTest(cfg, "^TestVerifRefjpCorpus$", 120)
		fmt.Println(out)
		if err != nil {
			os.Exit(1)
		}
	case "replay":
		cfg := &sym.CheckConfig{RepoDir: "/repo", VerifDir: verifDir(), Tier: "quick"}
		res, logs, err := sym.NativeReplay(cfg, os.Args[2:], false, 60)
		if err != nil {
			fmt.Println(err)
		}
		for p, r := range res {
			fmt.Printf("%s: failed=%v panic=%q diverged=%q timed_out=%v %.2fs\n", p, r.Failed, r.Panic, r.Diverged, r.TimedOut, r.Seconds)
			for _, n := range r.Notes {
				fmt.Println("   note:", n)
			}
			if len(r.Failed) > 0 || r.Panic != "" || r.TimedOut {
				defer os.Exit(1)
			}
		}
		_ = logs
	case "explore":
		fs := flag.NewFlagSet("explore", flag.ExitOnError)
		h := fs.String("h", "", "harness function (comma separated)")
		tier := fs.String("tier", "quick", "")
		workers := fs.Int("j", 16, "")
		maxPaths := fs.Int("max", 0, "")
		repo := fs.String("repo", "/repo", "")
		hd := fs.String("harness", verifDir()+"/harness", "")
		fs.Parse(os.Args[2:])
		t0 := time.Now()
		w, err := sym.LoadWorld(*repo, loadOverlay(*hd, *repo))
		if err != nil {
			fmt.Println("load error:", err)
			os.Exit(3)
		}
		fmt.Printf("loaded in %.1fs\n", time.Since(t0).Seconds())
		for _, name := range strings.Split(*h, ",") {
			rep := w.Explore(name, sym.ExploreOpts{Workers: *workers, Tier: *tier, MaxPaths: *maxPaths, PanicIsFinding: true, CostIsFinding: true, BudgetIsFinding: true})
			fmt.Println(rep.Summary())
			for k, v := range rep.UnsupportedM {
				fmt.Println("  unsupported:", v, k)
			}
			for _, e := range rep.InternalErrs {
				fmt.Println("  INTERNAL:", e)
			}
			for i, f := range rep.Findings {
				if i > 10 {
					break
				}
				fmt.Printf("  FINDING %s: %s @%s draws=%v\n", f.Kind, f.Msg, f.Where, f.Draws)
			}
			fmt.Println("  reach:", rep.Reach)
		}
	}
}
