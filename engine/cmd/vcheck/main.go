package main

import (
	"flag"
	"fmt"
	"os"
	"path/filepath"
	"strings"
	"time"

	"symgo/sym"
)

func loadOverlay(harnessDir, repo string) map[string][]byte {
	ov := map[string][]byte{}
	files, _ := filepath.Glob(filepath.Join(harnessDir, "*.go"))
	for _, f := range files {
		data, err := os.ReadFile(f)
		if err != nil {
			panic(err)
		}
		base := filepath.Base(f)
		ov[filepath.Join(repo, "zz_verif_"+base)] = data
	}
	return ov
}

func main() {
	if len(os.Args) < 2 {
		fmt.Println("usage: vcheck run|explore ...")
		os.Exit(2)
	}
	switch os.Args[1] {
	case "selftest":
		w, err := sym.LoadWorld("/repo", loadOverlay("/verif/harness", "/repo"))
		if err != nil {
			fmt.Println("load error:", err)
			os.Exit(3)
		}
		solver, _ := sym.NewSolver("z3", 10000)
		t0 := time.Now()
		r := w.SelfTest([]string{"/repo/testdata/compliance", "/repo/testdata/extra"}, solver, 0)
		fmt.Printf("selftest: %d/%d pass in %.1fs\n", r.Pass, r.Total, time.Since(t0).Seconds())
		for _, f := range r.Failures {
			fmt.Println("  FAIL", f)
		}
	case "explore":
		fs := flag.NewFlagSet("explore", flag.ExitOnError)
		h := fs.String("h", "", "harness function (comma separated)")
		tier := fs.String("tier", "quick", "")
		workers := fs.Int("j", 16, "")
		maxPaths := fs.Int("max", 0, "")
		repo := fs.String("repo", "/repo", "")
		hd := fs.String("harness", "/verif/harness", "")
		fs.Parse(os.Args[2:])
		t0 := time.Now()
		w, err := sym.LoadWorld(*repo, loadOverlay(*hd, *repo))
		if err != nil {
			fmt.Println("load error:", err)
			os.Exit(3)
		}
		fmt.Printf("loaded in %.1fs\n", time.Since(t0).Seconds())
		for _, name := range strings.Split(*h, ",") {
			rep := w.Explore(name, sym.ExploreOpts{Workers: *workers, Tier: *tier, MaxPaths: *maxPaths, PanicIsFinding: true, CostIsFinding: true, BudgetIsFinding: true})
			fmt.Println(rep.Summary())
			for k, v := range rep.UnsupportedM {
				fmt.Println("  unsupported:", v, k)
			}
			for _, e := range rep.InternalErrs {
				fmt.Println("  INTERNAL:", e)
			}
			for i, f := range rep.Findings {
				if i > 10 {
					break
				}
				fmt.Printf("  FINDING %s: %s @%s draws=%v\n", f.Kind, f.Msg, f.Where, f.Draws)
			}
			fmt.Println("  reach:", rep.Reach)
		}
	}
}
