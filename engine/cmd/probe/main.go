package main

import (
	"fmt"
	"os"
	"sort"
	"strings"

	"golang.org/x/tools/go/packages"
	"golang.org/x/tools/go/ssa"
	"golang.org/x/tools/go/ssa/ssautil"
)

func main() {
	cfg := &packages.Config{Mode: packages.LoadAllSyntax, Dir: "/repo", Env: append(os.Environ(), "GOFLAGS=-mod=mod", "GOPROXY=off")}
	pkgs, err := packages.Load(cfg, "./...")
	if err != nil {
		panic(err)
	}
	if packages.PrintErrors(pkgs) > 0 {
		os.Exit(1)
	}
	prog, spkgs := ssautil.AllPackages(pkgs, ssa.InstantiateGenerics)
	prog.Build()
	ext := map[string]int{}
	kinds := map[string]int{}
	for _, sp := range spkgs {
		if sp == nil {
			continue
		}
		fns := []*ssa.Function{}
		for _, m := range sp.Members {
			if f, ok := m.(*ssa.Function); ok {
				fns = append(fns, f)
			}
			if t, ok := m.(*ssa.Type); ok {
				for _, tt := range []interface{ NumMethods() int }{} {
					_ = tt
				}
				ms := prog.MethodSets.MethodSet(t.Type())
				for i := 0; i < ms.Len(); i++ {
					if f := prog.MethodValue(ms.At(i)); f != nil {
						fns = append(fns, f)
					}
				}
				// pointer receiver
			}
		}
		var visit func(f *ssa.Function)
		seen := map[*ssa.Function]bool{}
		visit = func(f *ssa.Function) {
			if seen[f] {
				return
			}
			seen[f] = true
			for _, af := range f.AnonFuncs {
				visit(af)
			}
			for _, b := range f.Blocks {
				for _, in := range b.Instrs {
					kinds[fmt.Sprintf("%T", in)]++
					if c, ok := in.(ssa.CallInstruction); ok {
						cc := c.Common()
						if cc.IsInvoke() {
							ext["invoke "+cc.Method.FullName()]++
						} else if sf := cc.StaticCallee(); sf != nil {
							if sf.Pkg == nil || !strings.HasPrefix(sf.Pkg.Pkg.Path(), "github.com/woodsbury/jmespath") {
								ext[sf.String()]++
							}
						} else if b, ok := cc.Value.(*ssa.Builtin); ok {
							ext["builtin "+b.Name()]++
						} else {
							ext["dynamic"]++
						}
					}
				}
			}
		}
		for _, f := range fns {
			visit(f)
		}
	}
	var names []string
	for k := range ext {
		names = append(names, k)
	}
	sort.Strings(names)
	for _, k := range names {
		fmt.Println(ext[k], k)
	}
	fmt.Println(kinds)
}
