package sym

import (
	"bufio"
	"bytes"
	"encoding/json"
	"fmt"
	"os"
	"os/exec"
	"path/filepath"
	"sort"
	"strings"
	"time"
)

// PropertyPlan says which harnesses decide a property and how monitor events
// are interpreted for it.
type PropertyPlan struct {
	ID        string
	Prefixes  []string // harness name prefixes
	Panic     bool     // panic events are violations
	Shared    bool     // shared-write events are violations
	Cost      bool     // cost / budget events are violations
	QuickSec  int
	ThoroSec  int
	MaxPaths  int
	Race      bool
	Functions string
}

var Plans = map[string]*PropertyPlan{}

func init() {
	for i := 1; i <= 20; i++ {
		id := fmt.Sprintf("C%02d", i)
		Plans[id] = &PropertyPlan{ID: id, Prefixes: []string{"H_" + id + "_"}, QuickSec: 200, ThoroSec: 1500}
	}
	Plans["C01"].QuickSec = 600
	Plans["C03"].QuickSec = 420
	Plans["C04"].QuickSec = 300
	Plans["C08"].QuickSec = 300
	Plans["C12"].QuickSec = 400
	Plans["C11"].QuickSec = 400
	Plans["C15"].QuickSec = 300
	Plans["C10"].QuickSec = 300
	Plans["C14"].QuickSec = 300
	for _, p := range Plans {
		p.ThoroSec = 3000
	}
	Plans["C03"].Panic = true
	Plans["C06"].Shared = true
	Plans["C07"].Shared = true
	Plans["C07"].Race = true
	Plans["C09"].Cost = true
	Plans["C09"].Prefixes = append(Plans["C09"].Prefixes, "H_C03_lexer")
	Plans["C04"].Prefixes = append(Plans["C04"].Prefixes, "H_C03_escapes")
	Plans["C11"].Prefixes = append(Plans["C11"].Prefixes, "H_C12_string")
	Plans["C02"].Prefixes = append(Plans["C02"].Prefixes, "H_C19_exprefs")
	Plans["C03"].Prefixes = append(Plans["C03"].Prefixes, "H_C12_spellings")
	Plans["C04"].Prefixes = append(Plans["C04"].Prefixes, "H_C12_spellings", "H_C06_history", "H_C08_text", "H_C16_long")
	Plans["C02"].Prefixes = append(Plans["C02"].Prefixes, "H_C05_int64", "H_C11_padwide")
	Plans["C14"].Prefixes = append(Plans["C14"].Prefixes, "H_C05_int64", "H_C02_tinyfrac")
	Plans["C05"].Prefixes = append(Plans["C05"].Prefixes, "H_C02_tonumber")
	Plans["C18"].Prefixes = append(Plans["C18"].Prefixes, "H_C02_tonumber")
	Plans["C17"].Prefixes = append(Plans["C17"].Prefixes, "H_C01_wide")
	Plans["C16"].Prefixes = append(Plans["C16"].Prefixes, "H_C17_quoted")
	Plans["C01"].Prefixes = append(Plans["C01"].Prefixes, "H_C17_quoted")
	Plans["C03"].Prefixes = append(Plans["C03"].Prefixes, "H_C16_long", "H_C06_longhistory")
	Plans["C07"].Prefixes = append(Plans["C07"].Prefixes, "H_C06_longhistory")
}

// heavyHarness: relative cost rank (measured); unlisted harnesses rank 0.
var heavyHarness = map[string]int{
	"H_C01_rhs": 1, "H_C01_chain2": 2,
	"H_C03_escapes": 1, "H_C03_funcs": 2,
	"H_C06_generated": 1, "H_C06_pure": 2,
	"H_C14_extremes":  1,
	"H_C10_selectors": 1,
	"H_C12_string":    1,
	"H_C15_strict":    1, "H_C15_unordered": 1,
}

type KnownFinding struct {
	Property   string          `json:"property"`
	Properties []string        `json:"properties,omitempty"`
	ID         string          `json:"id"`
	Status     string          `json:"status"`
	What       string          `json:"what"`
	Witness    json.RawMessage `json:"witness,omitempty"`
	Commit     string          `json:"commit,omitempty"`
}

type KnownFile struct {
	Findings []KnownFinding `json:"findings"`
	Fixed    []string       `json:"fixed"`
}

func LoadKnown(path string) KnownFile {
	var k KnownFile
	data, err := os.ReadFile(path)
	if err == nil {
		json.Unmarshal(data, &k)
	}
	return k
}

type ReplayResult struct {
	Path     string   `json:"path"`
	Harness  string   `json:"harness"`
	Failed   []string `json:"failed"`
	Panic    string   `json:"panic"`
	Stack    string   `json:"stack"`
	Diverged string   `json:"diverged"`
	Seconds  float64  `json:"seconds"`
	TimedOut bool     `json:"timed_out"`
	Notes    []string `json:"notes"`
}

type CheckConfig struct {
	Property   string
	Tier       string
	Seed       int64
	RepoDir    string
	VerifDir   string
	Workers    int
	OnlyH      string
	MaxSec     int
	NoReplay   bool
	SkipSelf   bool
	StopAfter  int    // seeded-defect evaluation: stop at this many candidate findings (0 = explore everything)
	Tag        string // scratch runs (seeded-defect evaluation): separate output and evidence locations
	SolverName string
}

// crossEvery: every n-th assertion verdict is re-asked to the second solver.
func crossEvery(tier string) int {
	if tier == "thorough" {
		return 20
	}
	return 200
}

func goEnv() []string {
	env := os.Environ()
	env = append(env, "GOFLAGS=-mod=mod", "GOPROXY=off")
	return env
}

// BuildOverlay assembles the harness overlay (plus the generated registry).
func BuildOverlay(verifDir, repoDir string, forTest bool) (map[string][]byte, []string, error) {
	ov := map[string][]byte{}
	files, _ := filepath.Glob(filepath.Join(verifDir, "harness", "*.go"))
	sort.Strings(files)
	var names []string
	for _, f := range files {
		base := filepath.Base(f)
		if strings.HasSuffix(base, "_test.go") && !forTest {
			continue
		}
		data, err := os.ReadFile(f)
		if err != nil {
			return nil, nil, err
		}
		ov[filepath.Join(repoDir, "zz_verif_"+base)] = data
		// collect harness function names
		sc := bufio.NewScanner(bytes.NewReader(data))
		for sc.Scan() {
			l := sc.Text()
			if strings.HasPrefix(l, "func H_") {
				n := strings.TrimPrefix(l, "func ")
				if i := strings.Index(n, "("); i > 0 {
					names = append(names, n[:i])
				}
			}
		}
	}
	for _, sub := range []string{"lexer", "parser", "evaluator"} {
		sfiles, _ := filepath.Glob(filepath.Join(verifDir, "harness", sub, "*.go"))
		for _, f := range sfiles {
			data, err := os.ReadFile(f)
			if err != nil {
				return nil, nil, err
			}
			ov[filepath.Join(repoDir, "internal", sub, "zz_verif_"+filepath.Base(f))] = data
		}
	}
	sort.Strings(names)
	var sb strings.Builder
	sb.WriteString("package jmespath\n\nvar vrtHarnesses = map[string]func(){\n")
	for _, n := range names {
		fmt.Fprintf(&sb, "\t%q: %s,\n", n, n)
	}
	sb.WriteString("}\n")
	ov[filepath.Join(repoDir, "zz_verif_registry.go")] = []byte(sb.String())
	return ov, names, nil
}

// NativeReplay runs the recorded counterexamples against the natively built
// library via `go test -overlay`.
func NativeReplay(cfg *CheckConfig, cexPaths []string, race bool, timeoutSec int) (map[string]ReplayResult, string, error) {
	res := map[string]ReplayResult{}
	if len(cexPaths) == 0 {
		return res, "", nil
	}
	ov, _, err := BuildOverlay(cfg.VerifDir, cfg.RepoDir, true)
	if err != nil {
		return res, "", err
	}
	outDir := filepath.Join(cfg.VerifDir, "out", "overlay"+cfg.Tag)
	os.MkdirAll(outDir, 0o755)
	repl := map[string]string{}
	for virt, data := range ov {
		rel, _ := filepath.Rel(cfg.RepoDir, virt)
		real := filepath.Join(outDir, strings.ReplaceAll(rel, "/", "__"))
		if err := os.WriteFile(real, data, 0o644); err != nil {
			return res, "", err
		}
		repl[virt] = real
	}
	oj, _ := json.Marshal(map[string]interface{}{"Replace": repl})
	ovPath := filepath.Join(outDir, "overlay.json")
	os.WriteFile(ovPath, oj, 0o644)
	// one process per counterexample so that a hang or crash is attributed
	var logs strings.Builder
	for _, p := range cexPaths {
		if ap, err := filepath.Abs(p); err == nil {
			p = ap
		}
		args := []string{"test", "-v", "-vet=off", "-count=1", "-overlay", ovPath, "-run", "^TestVerifReplay$", "-timeout", fmt.Sprintf("%ds", timeoutSec)}
		if race {
			args = append(args, "-race")
		}
		args = append(args, ".")
		cmd := exec.Command("go", args...)
		cmd.Dir = cfg.RepoDir
		cmd.Env = append(goEnv(), "VERIF_CEX_LIST="+p, "VERIF_TIER="+cfg.Tier)
		var out bytes.Buffer
		cmd.Stdout = &out
		cmd.Stderr = &out
		t0 := time.Now()
		runErr := cmd.Run()
		el := time.Since(t0).Seconds()
		logs.WriteString(out.String())
		found := false
		sc := bufio.NewScanner(bytes.NewReader(out.Bytes()))
		sc.Buffer(make([]byte, 1<<20), 1<<24)
		for sc.Scan() {
			l := sc.Text()
			if strings.HasPrefix(l, "REPLAY-RESULT ") {
				var r ReplayResult
				if json.Unmarshal([]byte(strings.TrimPrefix(l, "REPLAY-RESULT ")), &r) == nil {
					res[r.Path] = r
					found = true
				}
			}
		}
		if found && strings.Contains(out.String(), "WARNING: DATA RACE") {
			r := res[p]
			r.Failed = append(r.Failed, "data race reported by the race detector")
			res[p] = r
		}
		if !found {
			r := ReplayResult{Path: p, Seconds: el}
			o := out.String()
			switch {
			case strings.Contains(o, "panic: test timed out"):
				r.TimedOut = true
			case strings.Contains(o, "fatal error:") || strings.Contains(o, "panic:"):
				r.Panic = firstLineWith(o, "fatal error:", "panic:")
			case runErr != nil:
				r.Diverged = "go test failed: " + firstLines(o, 6)
			}
			res[p] = r
		}
	}
	return res, logs.String(), nil
}

// NativeTest runs a harness-side Go test natively with the overlay.
func NativeTest(cfg *CheckConfig, run string, timeoutSec int) (string, error) {
	ov, _, err := BuildOverlay(cfg.VerifDir, cfg.RepoDir, true)
	if err != nil {
		return "", err
	}
	outDir := filepath.Join(cfg.VerifDir, "out", "overlay")
	os.MkdirAll(outDir, 0o755)
	repl := map[string]string{}
	for virt, data := range ov {
		rel, _ := filepath.Rel(cfg.RepoDir, virt)
		real := filepath.Join(outDir, strings.ReplaceAll(rel, "/", "__"))
		if err := os.WriteFile(real, data, 0o644); err != nil {
			return "", err
		}
		repl[virt] = real
	}
	oj, _ := json.Marshal(map[string]interface{}{"Replace": repl})
	ovPath := filepath.Join(outDir, "overlay.json")
	os.WriteFile(ovPath, oj, 0o644)
	cmd := exec.Command("go", "test", "-v", "-vet=off", "-count=1", "-overlay", ovPath, "-run", run, "-timeout", fmt.Sprintf("%ds", timeoutSec), ".")
	cmd.Dir = cfg.RepoDir
	cmd.Env = append(goEnv(), "VERIF_TIER="+cfg.Tier)
	out, err := cmd.CombinedOutput()
	return string(out), err
}

func firstLineWith(s string, keys ...string) string {
	for _, l := range strings.Split(s, "\n") {
		for _, k := range keys {
			if strings.Contains(l, k) {
				return strings.TrimSpace(l)
			}
		}
	}
	return ""
}

func firstLines(s string, n int) string {
	ls := strings.Split(s, "\n")
	if len(ls) > n {
		ls = ls[:n]
	}
	return strings.Join(ls, " | ")
}

type CheckOutcome struct {
	Violations []string
	Known      []string
	Evidence   map[string]interface{}
	ExitCode   int
}

// RunCheck decides one property and writes its evidence file.
func RunCheck(cfg *CheckConfig) *CheckOutcome {
	t0 := time.Now()
	out := &CheckOutcome{}
	plan := Plans[cfg.Property]
	if plan == nil {
		fmt.Println("unknown property", cfg.Property)
		out.ExitCode = 2
		return out
	}
	evPath := filepath.Join(cfg.VerifDir, "evidence", cfg.Property+".json")
	if cfg.Tag != "" {
		evPath = filepath.Join(cfg.VerifDir, "out", "scratch-"+cfg.Tag, "evidence-"+cfg.Property+".json")
	}
	os.MkdirAll(filepath.Dir(evPath), 0o755)
	ev := map[string]interface{}{
		"property_id": cfg.Property, "tier": cfg.Tier, "seed": cfg.Seed, "level": "model_checking",
	}
	cov := map[string]interface{}{}
	ev["coverage"] = cov
	writeEv := func() {
		ev["wall_s"] = time.Since(t0).Seconds()
		data, _ := json.MarshalIndent(ev, "", " ")
		os.WriteFile(evPath, data, 0o644)
	}
	notClaimed := func(reason string) *CheckOutcome {
		fmt.Println("NOT-CLAIMED:", reason)
		ev["level"] = "other"
		cov["explanation"] = "nothing claimed in this run: " + reason
		cov["evaluations"] = 1
		cov["distinct_nontrivial"] = 2
		ev["violations"] = 0
		writeEv()
		return out
	}

	ov, names, err := BuildOverlay(cfg.VerifDir, cfg.RepoDir, false)
	if err != nil {
		return notClaimed("overlay: " + err.Error())
	}
	tl := time.Now()
	w, err := LoadWorld(cfg.RepoDir, ov)
	if err != nil {
		// distinguish: repository itself broken vs harness incompatible
		return notClaimed("harness_incompatible or repository does not type-check: " + err.Error())
	}
	loadS := time.Since(tl).Seconds()

	// translator validation on the repository's own corpus
	selfPass, selfTotal := 0, 0
	if !cfg.SkipSelf {
		s, err := NewSolver("z3", 10000)
		if err != nil {
			return notClaimed("cannot start z3: " + err.Error())
		}
		r := w.SelfTest([]string{filepath.Join(cfg.RepoDir, "testdata/compliance"), filepath.Join(cfg.RepoDir, "testdata/extra")}, s, 0)
		s.Close()
		selfPass, selfTotal = r.Pass, r.Total
		if r.Pass != r.Total {
			for _, f := range r.Failures {
				fmt.Println("  selftest:", firstLines(f, 2))
			}
			return notClaimed(fmt.Sprintf("engine self-test failed (%d/%d corpus cases agree); nothing claimed", r.Pass, r.Total))
		}
	}

	if !cfg.SkipSelf {
		if bad := w.SymbolicSelfTest(); len(bad) > 0 {
			for _, b := range bad {
				fmt.Println("  symbolic selftest:", b)
			}
			return notClaimed("engine symbolic self-test failed; nothing claimed")
		}
	}
	var hs []string
	for _, n := range names {
		for _, p := range plan.Prefixes {
			if strings.HasPrefix(n, p) {
				hs = append(hs, n)
			}
		}
	}
	if cfg.OnlyH != "" {
		hs = strings.Split(cfg.OnlyH, ",")
	}
	// harnesses known to need most of the time run last, so that whatever the
	// cheaper ones leave of their shares goes to them
	sort.SliceStable(hs, func(i, j int) bool { return heavyHarness[hs[i]] < heavyHarness[hs[j]] })
	if len(hs) == 0 {
		return notClaimed("no harness for property")
	}
	budgetSec := plan.QuickSec
	if cfg.Tier == "thorough" {
		budgetSec = plan.ThoroSec
	}
	if cfg.MaxSec > 0 {
		budgetSec = cfg.MaxSec
	}
	deadline := t0.Add(time.Duration(budgetSec) * time.Second)

	known := LoadKnown(filepath.Join(cfg.VerifDir, "known_findings.json"))
	openKnown := map[string]KnownFinding{}
	for _, k := range known.Findings {
		applies := k.Property == cfg.Property
		for _, p := range k.Properties {
			if p == cfg.Property {
				applies = true
			}
		}
		if applies && k.Status == "open" {
			openKnown[k.ID] = k
		}
	}

	var reports []*HarnessReport
	totalPaths, totalDec, totalDone, totalAssert := 0, 0, 0, 0
	sigs := 0
	var samples []map[string]interface{}
	funcs := map[string]bool{}
	stubs := map[string]bool{}
	unsupported := map[string]int{}
	var incomplete []string
	var vacuous []string
	inconclusive := 0
	solver := map[string]interface{}{}
	crossAsked, crossAgree, crossDis, crossUnk := 0, 0, 0, 0
	sat, unsat, unk := 0, 0, 0
	ssec := 0.0
	var allFindings []Finding
	perHarness := map[string]interface{}{}
	for i, h := range hs {
		remaining := time.Until(deadline)
		share := remaining / time.Duration(len(hs)-i)
		if share < 5*time.Second {
			share = 5 * time.Second
		}
		opts := ExploreOpts{Workers: cfg.Workers, Tier: cfg.Tier, Deadline: time.Now().Add(share), MaxPaths: plan.MaxPaths,
			PanicIsFinding: plan.Panic, SharedIsFinding: plan.Shared, CostIsFinding: plan.Cost, BudgetIsFinding: plan.Cost, SolverName: cfg.SolverName,
			CrossSolver: "z3-new", CrossEvery: crossEvery(cfg.Tier), StopAfter: cfg.StopAfter}
		rep := w.Explore(h, opts)
		reports = append(reports, rep)
		fmt.Println(rep.Summary())
		for _, e := range rep.InternalErrs {
			fmt.Println("  INTERNAL:", firstLines(e, 12))
		}
		totalPaths += rep.Paths
		totalDec += rep.Decisions
		totalDone += rep.Completed
		totalAssert += rep.AssertPaths
		sigs += len(rep.Sigs)
		for f := range rep.Funcs {
			funcs[f] = true
		}
		for f := range rep.Stubs {
			stubs[f] = true
		}
		for k, v := range rep.UnsupportedM {
			if strings.HasPrefix(k, "(infeasible)") {
				continue // diagnostic only: an infeasible path is decided
			}
			unsupported[h+": "+k] += v
		}
		if rep.Incomplete {
			incomplete = append(incomplete, h)
		}
		if (rep.AssertPaths == 0 && len(rep.Reach) == 0 && len(rep.Findings) == 0) || (rep.Completed == 0 && len(rep.Findings) == 0) {
			vacuous = append(vacuous, h)
			fmt.Println("VACUOUS-HARNESS:", h, "- no path reached an assertion; its obligations are not discharged")
		}
		inconclusive += rep.Inconclusive
		crossAsked += rep.CrossAsked
		crossAgree += rep.CrossAgree
		crossDis += rep.CrossDis
		crossUnk += rep.CrossUnk
		sat += rep.SolverSat
		unsat += rep.SolverUnsat
		unk += rep.SolverUnk
		ssec += rep.SolverSec
		if len(samples) < 8 {
			for _, s := range rep.Samples {
				if len(samples) < 8 {
					samples = append(samples, s)
				}
			}
		}
		allFindings = append(allFindings, rep.Findings...)
		perHarness[h] = map[string]interface{}{"paths": rep.Paths, "completed": rep.Completed, "assert_paths": rep.AssertPaths, "assumed_away": rep.Assumed,
			"unsupported": rep.Unsupported, "budget_ended": rep.Budget, "panic_paths": rep.Panics, "incomplete": rep.Incomplete, "reach": rep.Reach, "wall_s": rep.Wall, "internal_errors": len(rep.InternalErrs)}
		if len(rep.InternalErrs) > 0 {
			incomplete = append(incomplete, h+" (internal error)")
		}
	}
	solver["z3"] = map[string]interface{}{"sat": sat, "unsat": unsat, "unknown": unk}
	solver["z3-new (second opinion on a sample of deciding unsat verdicts)"] = map[string]interface{}{"asked": crossAsked, "agree": crossAgree, "disagree": crossDis, "unknown": crossUnk}

	// counterexamples -> files -> native replay
	cexDir := filepath.Join(cfg.VerifDir, "out", cfg.Property)
	if cfg.Tag != "" {
		cexDir = filepath.Join(cfg.VerifDir, "out", "scratch-"+cfg.Tag, cfg.Property)
	}
	os.RemoveAll(cexDir)
	os.MkdirAll(cexDir, 0o755)
	type pending struct {
		f     Finding
		path  string
		known string
		key   string
	}
	var pend []pending
	perKey := map[string]int{}
	for _, f := range allFindings {
		key := f.Harness + "|" + f.Kind + "|" + f.Msg
		knownID := ""
		for _, n := range f.Notes {
			if strings.HasPrefix(n, "template:") {
				key += "|" + n
			}
			if strings.HasPrefix(n, "known:") {
				id := strings.TrimPrefix(n, "known:")
				if _, ok := openKnown[id]; ok {
					knownID = id
				}
			}
		}
		key += "|" + knownID
		// several counterexamples per event: a candidate that rests on an
		// over-approximated answer (encoding of a decimal, map order) may need a
		// different concretisation to reproduce
		lim := 3
		if f.Kind == "sharedwrite" || sharedWriteMsg(f.Msg) != "" {
			lim = 4
		}
		if perKey[key] >= lim || len(pend) >= 120 {
			continue
		}
		perKey[key]++
		p := filepath.Join(cexDir, fmt.Sprintf("%s-%d.json", f.Harness, len(pend)))
		data, _ := json.MarshalIndent(map[string]interface{}{"property": cfg.Property, "harness": f.Harness, "kind": f.Kind, "assertion": f.Msg, "where": f.Where, "stack": f.Stack, "draws": f.Draws, "decisions": f.Trace, "notes": f.Notes, "known": knownID}, "", " ")
		os.WriteFile(p, data, 0o644)
		pend = append(pend, pending{f, p, knownID, key})
	}
	replays := 0
	discrepancies := []string{}
	confirmedKnown := map[string]bool{}
	if len(pend) > 0 && !cfg.NoReplay {
		var paths []string
		for _, p := range pend {
			paths = append(paths, p.path)
		}
		timeout := 20
		if plan.Race {
			timeout = 60
		}
		results, logs, err := NativeReplay(cfg, paths, plan.Race, timeout)
		os.WriteFile(filepath.Join(cexDir, "replay.log"), []byte(logs), 0o644)
		if err != nil {
			fmt.Println("replay error:", err)
		}
		keyConfirmed := map[string]bool{}
		var unconfirmed []string
		unconfKey := map[string]string{}
		for _, p := range pend {
			r, ok := results[p.path]
			replays++
			confirmed := false
			why := ""
			switch p.f.Kind {
			case "violation":
				for _, m := range r.Failed {
					if m == p.f.Msg {
						confirmed = true
					}
				}
				if !confirmed && len(r.Failed) > 0 {
					confirmed = true // another assertion of the same harness fails natively on this input
					why = "different assertion: " + strings.Join(r.Failed, "; ")
				}
				if r.Panic != "" {
					confirmed = true
					why = "native panic: " + r.Panic
				}
			case "panic":
				confirmed = r.Panic != ""
			case "cost", "budget":
				confirmed = r.TimedOut || r.Seconds > 2.0 || r.Panic != ""
			case "sharedwrite":
				confirmed = len(r.Failed) > 0 || r.Panic != ""
			}
			if !ok {
				why = "no replay result"
			}
			if confirmed {
				keyConfirmed[p.key] = true
				if p.known != "" {
					confirmedKnown[p.known] = true
					continue
				}
				line := fmt.Sprintf("VIOLATION property=%s replay=%s", cfg.Property, p.path)
				out.Violations = append(out.Violations, line)
				fmt.Printf("%s   # %s: %s %s\n", line, p.f.Kind, p.f.Msg, why)
			} else {
				d := fmt.Sprintf("%s: %s (%s) did not reproduce natively: failed=%v panic=%q diverged=%q %.1fs", filepath.Base(p.path), p.f.Msg, p.f.Kind, r.Failed, r.Panic, r.Diverged, r.Seconds)
				unconfirmed = append(unconfirmed, d)
				unconfKey[d] = p.key
			}
		}
		for _, d := range unconfirmed {
			if keyConfirmed[unconfKey[d]] {
				continue // another counterexample of the same event reproduced
			}
			discrepancies = append(discrepancies, d)
			fmt.Println("ENCODING-DISCREPANCY:", d)
		}
	}
	for id, k := range openKnown {
		st := "not exercised in this run"
		if confirmedKnown[id] {
			st = "reproduced natively in this run"
		}
		line := fmt.Sprintf("KNOWN-FINDING: property=%s %s %s (%s)", cfg.Property, id, k.What, st)
		out.Known = append(out.Known, line)
		fmt.Println(line)
	}

	// evidence
	var fl []string
	for f := range funcs {
		fl = append(fl, f)
	}
	sort.Strings(fl)
	var sl []string
	for f := range stubs {
		sl = append(sl, f)
	}
	sort.Strings(sl)
	if totalDone == 0 && totalPaths > 0 {
		totalDone = 0
	}
	cov["states"] = totalPaths
	cov["transitions"] = totalDec
	cov["traces_validated_against_impl"] = selfTotal + replays
	if len(samples) == 0 {
		samples = append(samples, map[string]interface{}{"note": "no completed path with an assertion in this run"})
	}
	cov["samples"] = samples
	cov["evaluations"] = totalPaths
	cov["distinct_nontrivial"] = sigs
	cov["rule"] = "one evaluation = one symbolic path of a harness (a class of concrete inputs); distinct = distinct decision signatures among paths that ran to an assertion or event"
	cov["paths_completed"] = totalDone
	cov["paths_reaching_assertion"] = totalAssert
	cov["functions_encoded"] = fl
	cov["stubs_used"] = sl
	cov["harnesses"] = perHarness
	cov["queries"] = solver
	cov["solver_s"] = ssec
	cov["load_s"] = loadS
	cov["selftest"] = fmt.Sprintf("%d/%d corpus cases agree between interpreter and recorded outcomes", selfPass, selfTotal)
	cov["unsupported_paths"] = unsupported
	cov["incomplete_harnesses"] = incomplete
	cov["vacuous_harnesses"] = vacuous
	cov["inconclusive_obligations"] = inconclusive
	cov["encoding_discrepancies"] = discrepancies
	cov["known_findings"] = out.Known
	cov["exhaustive"] = len(incomplete) == 0
	ev["violations"] = len(out.Violations)
	ev["assumptions"] = []string{
		"bounded symbolic execution of go/ssa built from the working tree; bounds are those of the harness (see DESIGN.md section 4)",
		"stdlib and decimal128 calls listed in stubs_used are modelled by contract (DESIGN.md 2.4)",
		"solver: z3 over Int/Real with explicit two's-complement wrapping; unknown/timeouts are reported as inconclusive, never as held",
	}
	writeEv()
	if len(out.Violations) > 0 {
		out.ExitCode = 1
	}
	nUnsup := 0
	for k, v := range unsupported {
		nUnsup += v
		fmt.Printf("UNDECIDED-PATHS: %d x %s (the encoder has no model for this; nothing is claimed for these paths)\n", v, k)
	}
	fmt.Printf("RESULT property=%s tier=%s paths=%d violations=%d known=%d discrepancies=%d undecided=%d inconclusive=%d incomplete=%v wall=%.1fs\n", cfg.Property, cfg.Tier, totalPaths, len(out.Violations), len(out.Known), len(discrepancies), nUnsup, inconclusive, incomplete, time.Since(t0).Seconds())
	return out
}
