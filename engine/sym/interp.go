package sym

import (
	"fmt"
	"go/constant"
	"go/token"
	"go/types"
	"math/big"
	"os"
	"strings"
	"time"

	"golang.org/x/tools/go/ssa"
)

// pathEnd is thrown (Go panic) to finish the current path.
type pathEnd struct {
	Kind string // "infeasible", "unsupported", "budget", "assumed", "done", "alloc"
	Msg  string
}

// goPanic models a panic raised by interpreted code.
type goPanic struct {
	Msg   string
	Where string
	Stack []string
}

type Decision struct {
	Kind string
	N    int
	Pick int
}

type Event struct {
	Kind  string // "panic", "violation", "sharedwrite", "cost", "unsupported", "budget"
	Msg   string
	Where string
	Model map[string]*Term
	Stack []string
	Extra map[string]interface{}
}

// Interp executes one path.
type Interp struct {
	W      *World
	Solver *Solver

	pc      []*Term
	bg      []*Term // range constraints for variables
	prefix  []int
	pos     int
	Trace   []Decision
	Pending [][]int // prefixes to explore later

	globals map[*ssa.Global]*Cell
	steps   int
	Budget  int
	stack   []*ssa.Function
	varSeq  map[string]int

	Events       []Event
	Draws        []*Draw
	lazyN        int
	Cfg          HarnessCfg
	spec         DocSpec
	underTest    int  // >0 while executing code of the library (not harness)
	monitorOn    bool // shared-write monitor active
	parseDepth   int
	Stats        *RunStats
	FuncsSeen    map[string]bool
	StubsUsed    map[string]bool
	Assumptions  map[string]bool
	assertsHit   int
	magicInts    map[string]*Term
	noteList     []string
	loopCounts   map[*ssa.BasicBlock]int
	maxAlloc     int
	tags         map[string]string
	Deadline     time.Time
	MaxDecisions int
	refine       map[string][2]*big.Int // path-local interval refinements by term key
	numLeaves    []*Term                // integer-valued symbolic leaves of documents
	tok          *tokenMode
	Cross        *CrossCheck
	onceDone     map[*StructV]bool
	sync         *syncState
	dom          map[string]*smallDom // finite domains of small-range variables
	entangled    map[string]bool      // variables that occur in multi-variable conjuncts
	varsMemo     map[string][]string
}

// smallDom is the set of values a small-range integer variable can still take
// according to the single-variable conjuncts of the path condition.
type smallDom struct {
	lo   int64
	bits []bool
	n    int
}

type HarnessCfg struct {
	Tier     string
	MaxAlloc int // largest make/append size tolerated before a cost event
}

type RunStats struct {
	SolverCalls int
}

func (in *Interp) where() string {
	if len(in.stack) == 0 {
		return ""
	}
	return in.stack[len(in.stack)-1].String()
}

func (in *Interp) stackNames() []string {
	var out []string
	for i := len(in.stack) - 1; i >= 0 && len(out) < 12; i-- {
		out = append(out, in.stack[i].String())
	}
	return out
}

func (in *Interp) end(kind, msg string) {
	panic(pathEnd{kind, msg})
}

func (in *Interp) unsupported(msg string) {
	in.Events = append(in.Events, Event{Kind: "unsupported", Msg: msg, Where: in.where()})
	in.end("unsupported", msg)
}

func (in *Interp) goPanic(msg string) {
	panic(goPanic{Msg: msg, Where: in.where(), Stack: in.stackNames()})
}

// CrossCheck re-asks a sample of the deciding "unsat" verdicts to a second
// solver (shared by the paths of one worker).
type CrossCheck struct {
	Name     string
	Every    int
	S        *Solver
	n        int
	Asked    int
	Agree    int
	Disagree int
	Unknown  int
}

// crossUnsat is called when the primary solver answered unsat for the
// negation of an assertion (i.e. the assertion holds on this path).
func (in *Interp) crossUnsat(extra ...*Term) {
	c := in.Cross
	if c == nil || c.Every <= 0 {
		return
	}
	c.n++
	if c.n%c.Every != 1 {
		return
	}
	if c.S == nil {
		s, err := NewSolver(c.Name, 10000)
		if err != nil {
			c.Every = 0
			return
		}
		c.S = s
	}
	as := make([]*Term, 0, len(in.bg)+len(in.pc)+len(extra))
	as = append(as, in.bg...)
	as = append(as, in.pc...)
	as = append(as, extra...)
	r, _ := c.S.Check(as, false)
	c.Asked++
	switch r {
	case Unsat:
		c.Agree++
	case Sat:
		c.Disagree++
		in.Events = append(in.Events, Event{Kind: "inconclusive", Msg: "solvers disagree on an assertion (" + in.Solver.Name + ": unsat, " + c.Name + ": sat)", Where: in.where()})
	default:
		c.Unknown++
	}
}

// ---- path condition and decisions ------------------------------------

func (in *Interp) assume(c *Term) {
	if b, ok := c.BoolVal(); ok {
		if !b {
			in.end("infeasible", "assume false")
		}
		return
	}
	in.addPC(c)
}

// addPC appends a conjunct to the path condition and records the interval
// facts it implies (x < c, c <= x, x == c ...) for later overflow reasoning.
func (in *Interp) addPC(c *Term) {
	in.pc = append(in.pc, c)
	in.learn(c, 0)
	in.refineDomains(c)
}

func (in *Interp) refineDomains(c *Term) {
	if c.op == OAnd {
		for _, a := range c.args {
			in.refineDomains(a)
		}
		return
	}
	if name, ok := in.singleVar(c); ok {
		d := in.dom[name]
		for i, live := range d.bits {
			if !live {
				continue
			}
			if b, _ := Eval(c, map[string]*Term{name: IntC(d.lo + int64(i))}).BoolVal(); !b {
				d.bits[i] = false
				d.n--
			}
		}
		return
	}
	vs := in.termVars(c)
	if len(vs) > 1 {
		for _, v := range vs {
			in.entangled[v] = true
		}
	}
}

func (in *Interp) learn(c *Term, depth int) {
	if depth > 3 {
		return
	}
	switch c.op {
	case OAnd:
		for _, a := range c.args {
			in.learn(a, depth+1)
		}
	case OLt, OLe:
		a, b := c.args[0], c.args[1]
		if a.sort != SInt {
			return
		}
		off := int64(0)
		if c.op == OLt {
			off = 1
		}
		if bl, bh := in.ival(b); bh != nil {
			// a <= bh - off
			in.narrow(a, nil, new(big.Int).Sub(bh, big.NewInt(off)))
			_ = bl
		}
		if al, _ := in.ival(a); al != nil {
			in.narrow(b, new(big.Int).Add(al, big.NewInt(off)), nil)
		}
	case OEq:
		a, b := c.args[0], c.args[1]
		if a.sort != SInt {
			return
		}
		if v, ok := b.IntVal(); ok {
			in.narrow(a, v, v)
		} else if v, ok := a.IntVal(); ok {
			in.narrow(b, v, v)
		}
	case ONot:
		x := c.args[0]
		if x.op == OLt && x.args[0].sort == SInt {
			in.learn(Le(x.args[1], x.args[0]), depth+1)
		} else if x.op == OLe && x.args[0].sort == SInt {
			in.learn(Lt(x.args[1], x.args[0]), depth+1)
		}
	}
}

func (in *Interp) narrow(t *Term, lo, hi *big.Int) {
	if t.op == OConst {
		return
	}
	// x + c  =>  refine x
	if t.op == OAdd {
		if c, ok := t.args[1].IntVal(); ok {
			var l2, h2 *big.Int
			if lo != nil {
				l2 = new(big.Int).Sub(lo, c)
			}
			if hi != nil {
				h2 = new(big.Int).Sub(hi, c)
			}
			in.narrow(t.args[0], l2, h2)
		}
	}
	cur, ok := in.refine[t.key]
	if !ok {
		cur = [2]*big.Int{t.lo, t.hi}
	}
	if lo != nil && (cur[0] == nil || lo.Cmp(cur[0]) > 0) {
		cur[0] = lo
	}
	if hi != nil && (cur[1] == nil || hi.Cmp(cur[1]) < 0) {
		cur[1] = hi
	}
	in.refine[t.key] = cur
}

// ival returns the best known interval of an Int term on this path.
func (in *Interp) ival(t *Term) (*big.Int, *big.Int) {
	lo, hi := t.lo, t.hi
	if r, ok := in.refine[t.key]; ok {
		if r[0] != nil && (lo == nil || r[0].Cmp(lo) > 0) {
			lo = r[0]
		}
		if r[1] != nil && (hi == nil || r[1].Cmp(hi) < 0) {
			hi = r[1]
		}
	}
	switch t.op {
	case OAdd:
		al, ah := in.ival(t.args[0])
		bl, bh := in.ival(t.args[1])
		if l := addB(al, bl); l != nil && (lo == nil || l.Cmp(lo) > 0) {
			lo = l
		}
		if h := addB(ah, bh); h != nil && (hi == nil || h.Cmp(hi) < 0) {
			hi = h
		}
	case OSub:
		al, ah := in.ival(t.args[0])
		bl, bh := in.ival(t.args[1])
		if l := subB(al, bh); l != nil && (lo == nil || l.Cmp(lo) > 0) {
			lo = l
		}
		if h := subB(ah, bl); h != nil && (hi == nil || h.Cmp(hi) < 0) {
			hi = h
		}
	}
	return lo, hi
}

// wrap reduces t to a machine integer, skipping the reduction when the
// path-local interval shows it cannot overflow.
func (in *Interp) wrap(t *Term, bits int, signed bool) *Term {
	if t.op != OConst {
		lo, hi := in.ival(t)
		if lo != nil && hi != nil {
			tl, th := typeRange(bits, signed)
			if lo.Cmp(tl) >= 0 && hi.Cmp(th) <= 0 {
				return t
			}
		}
	}
	return Wrap(t, bits, signed)
}

func (in *Interp) query(extra ...*Term) (Result, map[string]*Term) {
	as := make([]*Term, 0, len(in.bg)+len(in.pc)+len(extra))
	as = append(as, in.bg...)
	as = append(as, in.pc...)
	as = append(as, extra...)
	if in.Stats != nil {
		in.Stats.SolverCalls++
	}
	return in.Solver.Check(as, true)
}

func (in *Interp) feasible(c *Term) bool {
	if b, ok := c.BoolVal(); ok {
		return b
	}
	if name, ok := in.singleVar(c); ok {
		// the finite domain is a necessary condition; it is also sufficient when
		// no other conjunct relates the variable to another one
		d := in.dom[name]
		any := false
		for i, live := range d.bits {
			if !live {
				continue
			}
			if b, _ := Eval(c, map[string]*Term{name: IntC(d.lo + int64(i))}).BoolVal(); b {
				any = true
				break
			}
		}
		if !any {
			return false
		}
		if !in.entangled[name] {
			return true
		}
	}
	if c.op == OAnd {
		// conjunction of single-variable atoms over independent variables
		byVar := map[string][]*Term{}
		ok := true
		for _, a := range c.args {
			name, single := in.singleVar(a)
			if !single || in.entangled[name] {
				ok = false
				break
			}
			byVar[name] = append(byVar[name], a)
		}
		if ok {
			for name, atoms := range byVar {
				d := in.dom[name]
				any := false
				for i, live := range d.bits {
					if !live {
						continue
					}
					m := map[string]*Term{name: IntC(d.lo + int64(i))}
					all := true
					for _, a := range atoms {
						if b, _ := Eval(a, m).BoolVal(); !b {
							all = false
							break
						}
					}
					if all {
						any = true
						break
					}
				}
				if !any {
					return false
				}
			}
			return true
		}
	}
	if qlog {
		fmt.Fprintf(os.Stderr, "QUERY vars=%v cond=%.200s\n", in.termVars(c), c.String())
	}
	r, _ := in.query(c)
	return r != Unsat
}

var qlog = os.Getenv("VERIF_QLOG") != ""

// expandCases splits a disjunction of single-variable atoms into mutually
// exclusive conjunctions (a1 | !a1&a2 | !a1&!a2&a3 ...), so that taking one
// of them keeps the finite domains independent instead of recording a
// relation between variables.
func (in *Interp) expandCases(t *Term) []*Term {
	if t.op == ONot && t.args[0].op == OAnd {
		// !(a1 & a2 & ...) = !a1 | !a2 | ...
		neg := make([]*Term, len(t.args[0].args))
		for i, a := range t.args[0].args {
			neg[i] = Not(a)
		}
		t = &Term{op: OOr, sort: SBool, args: neg, key: "or*" + t.key}
	}
	if t.op != OOr || len(t.args) > 6 {
		return []*Term{t}
	}
	for _, a := range t.args {
		if _, ok := in.singleVar(a); !ok {
			return []*Term{t}
		}
	}
	var out []*Term
	var negs []*Term
	for _, a := range t.args {
		out = append(out, And(append(append([]*Term{}, negs...), a)...))
		negs = append(negs, Not(a))
	}
	return out
}

// termVars lists the variables of a term (memoised by key, capped).
func (in *Interp) termVars(t *Term) []string {
	if v, ok := in.varsMemo[t.key]; ok {
		return v
	}
	seen := map[string]bool{}
	var out []string
	var walk func(t *Term) bool
	walk = func(t *Term) bool {
		switch t.op {
		case OConst:
			return true
		case OVar:
			if !seen[t.name] {
				seen[t.name] = true
				out = append(out, t.name)
			}
			return len(out) <= 4
		case OUF:
			out = append(out, "uf:"+t.name)
		}
		for _, a := range t.args {
			if !walk(a) {
				return false
			}
		}
		return true
	}
	walk(t)
	in.varsMemo[t.key] = out
	return out
}

func (in *Interp) singleVar(c *Term) (string, bool) {
	vs := in.termVars(c)
	if len(vs) != 1 {
		return "", false
	}
	if _, ok := in.dom[vs[0]]; !ok {
		return "", false
	}
	return vs[0], true
}

// decide picks one of the mutually exclusive, jointly exhaustive conditions.
func (in *Interp) decide(kind string, alts []*Term) int {
	// static resolution
	live := -1
	nlive := 0
	for i, a := range alts {
		if b, ok := a.BoolVal(); ok {
			if b {
				return i
			}
			continue
		}
		live = i
		nlive++
	}
	if nlive == 0 {
		in.end("infeasible", "no alternative: "+kind)
	}
	if nlive == 1 {
		// exhaustive: the only non-false alternative holds
		in.addPC(alts[live])
		return live
	}
	if in.pos < len(in.prefix) {
		pick := in.prefix[in.pos]
		in.pos++
		in.Trace = append(in.Trace, Decision{kind, len(alts), pick})
		if pick >= len(alts) {
			in.end("infeasible", "replay mismatch")
		}
		in.addPC(alts[pick])
		return pick
	}
	in.checkDecisionCap()
	first := -1
	for i, a := range alts {
		if b, ok := a.BoolVal(); ok && !b {
			continue
		}
		if !in.feasible(a) {
			continue
		}
		if first < 0 {
			first = i
			continue
		}
		np := make([]int, len(in.prefix), len(in.prefix)+1)
		copy(np, in.prefix)
		np = append(np, i)
		in.Pending = append(in.Pending, np)
	}
	if first < 0 {
		in.end("infeasible", "no feasible alternative: "+kind)
	}
	in.prefix = append(in.prefix, first)
	in.pos++
	in.Trace = append(in.Trace, Decision{kind, len(alts), first})
	in.addPC(alts[first])
	return first
}

// bigModel returns a model of the path condition, preferring one in which
// some integer input has a huge magnitude (shows that a cost event is driven
// by the magnitude of a parameter rather than by data size).
func (in *Interp) bigModel() map[string]*Term {
	big40 := BigC(pow2[40])
	var cands []*Term
	for _, d := range in.Draws {
		switch d.Kind {
		case "int":
			cands = append(cands, d.T)
		case "magic":
			cands = append(cands, d.Ints...)
		case "jnum":
			if d.S != nil && d.S.Num != nil && d.S.Num.K != nil {
				cands = append(cands, d.S.Num.K)
			}
		}
	}
	for _, t := range in.numLeaves {
		cands = append(cands, t)
	}
	// greedily make as many inputs as possible huge at once
	var acc []*Term
	var best map[string]*Term
	for _, t := range cands {
		if t.IsConst() {
			continue
		}
		for _, c := range []*Term{Gt(t, big40), Lt(t, Neg(big40))} {
			if r, m := in.query(append(append([]*Term{}, acc...), c)...); r == Sat {
				acc = append(acc, c)
				best = m
				break
			}
		}
	}
	if best != nil {
		in.noteList = append(in.noteList, "magnitude-driven")
		return best
	}
	_, m := in.query()
	return m
}

func (in *Interp) checkDecisionCap() {
	if in.MaxDecisions > 0 && len(in.Trace) >= in.MaxDecisions {
		model := in.bigModel()
		in.Events = append(in.Events, Event{Kind: "budget", Msg: fmt.Sprintf("more than %d symbolic decisions on one path (loop driven by a symbolic quantity?)", in.MaxDecisions), Where: in.where(), Stack: in.stackNames(), Model: model})
		in.end("budget", "decision cap")
	}
}

// choose is a nondeterministic choice among n always-feasible alternatives.
func (in *Interp) choose(kind string, n int) int {
	if n <= 0 {
		in.end("infeasible", "choose 0")
	}
	if n == 1 {
		return 0
	}
	if in.pos < len(in.prefix) {
		pick := in.prefix[in.pos]
		in.pos++
		in.Trace = append(in.Trace, Decision{kind, n, pick})
		if pick >= n {
			in.end("infeasible", "replay mismatch")
		}
		return pick
	}
	for i := 1; i < n; i++ {
		np := make([]int, len(in.prefix), len(in.prefix)+1)
		copy(np, in.prefix)
		np = append(np, i)
		in.Pending = append(in.Pending, np)
	}
	in.prefix = append(in.prefix, 0)
	in.pos++
	in.Trace = append(in.Trace, Decision{kind, n, 0})
	return 0
}

// branch decides a boolean condition.
func (in *Interp) branch(c *Term) bool {
	if b, ok := c.BoolVal(); ok {
		return b
	}
	yes := in.expandCases(c)
	no := in.expandCases(Not(c))
	if len(yes) == 1 && len(no) == 1 {
		return in.decide("if", []*Term{c, Not(c)}) == 0
	}
	alts := append(append([]*Term{}, yes...), no...)
	return in.decide("ifx", alts) < len(yes)
}

// concretize forces an Int term to a concrete value in [lo,hi], forking over
// feasible values; values outside the range go to the "out" alternative
// (returns ok=false).
func (in *Interp) concretize(kind string, t *Term, lo, hi int) (int, bool) {
	if v, ok := t.Int64Val(); ok {
		if v < int64(lo) || v > int64(hi) {
			return 0, false
		}
		return int(v), true
	}
	if v, ok := t.IntVal(); ok {
		_ = v
		return 0, false
	}
	alts := make([]*Term, 0, hi-lo+2)
	for i := lo; i <= hi; i++ {
		alts = append(alts, Eq(t, IntC(int64(i))))
	}
	alts = append(alts, Or(Lt(t, IntC(int64(lo))), Gt(t, IntC(int64(hi)))))
	k := in.decide(kind, alts)
	if k == hi-lo+1 {
		return 0, false
	}
	return lo + k, true
}

// fresh variable helpers
func (in *Interp) freshName(base string) string {
	base = sanitize(base)
	n := in.varSeq[base]
	in.varSeq[base] = n + 1
	if n == 0 {
		return base
	}
	return fmt.Sprintf("%s_%d", base, n)
}

func sanitize(s string) string {
	var sb strings.Builder
	for _, c := range s {
		if c >= 'a' && c <= 'z' || c >= 'A' && c <= 'Z' || c >= '0' && c <= '9' || c == '_' {
			sb.WriteRune(c)
		} else {
			sb.WriteByte('_')
		}
	}
	if sb.Len() == 0 || (sb.String()[0] >= '0' && sb.String()[0] <= '9') {
		return "v" + sb.String()
	}
	return sb.String()
}

func (in *Interp) freshInt(base string, lo, hi *big.Int) *Term {
	v := Var(in.freshName(base), SInt, lo, hi)
	if lo != nil && hi != nil && lo.IsInt64() && hi.IsInt64() && new(big.Int).Sub(hi, lo).Cmp(big.NewInt(300)) < 0 {
		n := int(hi.Int64()-lo.Int64()) + 1
		d := &smallDom{lo: lo.Int64(), bits: make([]bool, n), n: n}
		for i := range d.bits {
			d.bits[i] = true
		}
		in.dom[v.name] = d
	}
	if lo != nil {
		in.bg = append(in.bg, Le(BigC(lo), &Term{op: OVar, sort: SInt, name: v.name, key: v.key}))
	}
	if hi != nil {
		in.bg = append(in.bg, Le(&Term{op: OVar, sort: SInt, name: v.name, key: v.key}, BigC(hi)))
	}
	return v
}

func (in *Interp) freshIntR(base string, lo, hi int64) *Term {
	return in.freshInt(base, big.NewInt(lo), big.NewInt(hi))
}

func (in *Interp) freshBool(base string) *Term {
	return Var(in.freshName(base), SBool, nil, nil)
}

func (in *Interp) freshReal(base string) *Term {
	return Var(in.freshName(base), SReal, nil, nil)
}

// ---- heap / monitor -----------------------------------------------------

func (in *Interp) store(r Ref, v Value) {
	if in.monitorOn && in.underTest > 0 {
		o := r.Origin()
		// while Parse runs, the syntax tree under construction is private to the call
		if o == OrgDoc || (o == OrgAST && in.parseDepth == 0) || o == OrgGlobal || o == OrgPool {
			in.Events = append(in.Events, Event{Kind: "sharedwrite", Msg: "store to " + o.String() + " object", Where: in.where(), Stack: in.stackNames()})
		}
	}
	assignInto(r, v)
}

// assignInto stores v at r. Aggregates are copied field by field into the
// existing object so that pointers into it (taken earlier with FieldAddr /
// IndexAddr) keep aliasing the same storage, as in Go.
func assignInto(r Ref, v Value) {
	switch nv := v.(type) {
	case *StructV:
		if old, ok := r.Load().(*StructV); ok && old != nv && len(old.Fields) == len(nv.Fields) {
			old.T = nv.T
			for i := range nv.Fields {
				assignInto(FieldRef{old, i}, nv.Fields[i])
			}
			return
		}
	case *ArrayV:
		if old, ok := r.Load().(*ArrayV); ok && old != nv && len(old.Elems) == len(nv.Elems) && old.Abs == nil && nv.Abs == nil {
			for i := range nv.Elems {
				assignInto(ElemRef{old, i}, nv.Elems[i])
			}
			return
		}
	}
	r.Store(v)
}

func (in *Interp) global(g *ssa.Global) *Cell {
	c, ok := in.globals[g]
	if !ok {
		c = &Cell{V: zeroValue(g.Type().(*types.Pointer).Elem(), OrgGlobal), Org: OrgGlobal, Nm: g.String()}
		if nv, isNative := nativeGlobals[g.String()]; isNative {
			c.V = in.nativeErr(nv.(error))
		} else if g.Pkg != nil && !in.W.IsRepoPkg(g.Pkg) && !strings.HasSuffix(g.Name(), "init$guard") {
			in.unsupported("read of uninitialised external global " + g.String())
		}
		in.globals[g] = c
	}
	return c
}

// ---- frames ---------------------------------------------------------------

type frame struct {
	fn     *ssa.Function
	env    map[ssa.Value]Value
	defers []func()
}

func (in *Interp) constValue(c *ssa.Const) Value {
	t := c.Type()
	if c.Value == nil {
		return zeroValue(t, in.org())
	}
	switch u := t.Underlying().(type) {
	case *types.Basic:
		switch {
		case u.Info()&types.IsBoolean != 0:
			return BoolC(constant.BoolVal(c.Value))
		case u.Info()&types.IsInteger != 0:
			v := constant.ToInt(c.Value)
			if i, ok := constant.Int64Val(v); ok {
				return IntC(i)
			}
			b, _ := new(big.Int).SetString(v.ExactString(), 10)
			return BigC(b)
		case u.Info()&types.IsFloat != 0:
			bits := 64
			if u.Kind() == types.Float32 {
				bits = 32
			}
			f, _ := constant.Float64Val(c.Value)
			if bits == 32 {
				f32, _ := constant.Float32Val(c.Value)
				f = float64(f32)
			}
			r := new(big.Rat)
			r.SetFloat64(f)
			return &FloatV{Cls: FFinite, Val: RatC(r), Bits: bits}
		case u.Info()&types.IsString != 0:
			return ConcStr(constant.StringVal(c.Value))
		}
	}
	panic(fmt.Sprintf("constValue: unsupported const %v of type %v", c, t))
}

func (in *Interp) get(fr *frame, v ssa.Value) Value {
	switch x := v.(type) {
	case *ssa.Const:
		return in.constValue(x)
	case *ssa.Global:
		return PtrV{in.global(x)}
	case *ssa.Function:
		return &FuncV{Fn: x}
	case *ssa.Builtin:
		return &FuncV{Builtin: "builtin:" + x.Name()}
	}
	r, ok := fr.env[v]
	if !ok {
		panic(fmt.Sprintf("get: no value for %s (%T) in %s", v.Name(), v, fr.fn))
	}
	return r
}

func (in *Interp) step() {
	in.steps++
	if in.steps&1023 == 0 && !in.Deadline.IsZero() && time.Now().After(in.Deadline) {
		in.end("deadline", "exploration deadline reached inside a path")
	}
	if in.steps > in.Budget {
		in.Events = append(in.Events, Event{Kind: "budget", Msg: fmt.Sprintf("instruction budget %d exceeded", in.Budget), Where: in.where(), Stack: in.stackNames()})
		in.end("budget", "instruction budget")
	}
}

// CallFunction runs fn with args and returns its result (TupleV for multiple).
func (in *Interp) CallFunction(fn *ssa.Function, args []Value, bindings []Value) Value {
	if fn.Name() == "init" && fn.Pkg != nil && !in.W.IsRepoPkg(fn.Pkg) && fn.Signature.Recv() == nil {
		return nil
	}
	if in.tok != nil && fn.Name() == "Next" && fn.String() == "(*"+RepoModule+"/internal/lexer.Lexer).Next" {
		if r, ok := in.tokenNext(args); ok {
			return r
		}
	}
	if stub, ok := in.W.Stubs[fn.String()]; ok {
		in.StubsUsed[fn.String()] = true
		return stub(in, fn, args)
	}
	if o := fn.Origin(); o != nil && o != fn {
		// instances of generic functions outside the repository (atomic.Pointer[T]) have no package of their own
		if stub, ok := in.W.Stubs[o.String()]; ok {
			in.StubsUsed[o.String()] = true
			return stub(in, fn, args)
		}
	}
	if fn.Blocks == nil {
		// generic origin name lookup (instantiations)
		if o := fn.Origin(); o != nil {
			if stub, ok := in.W.Stubs[o.String()]; ok {
				in.StubsUsed[o.String()] = true
				return stub(in, fn, args)
			}
		}
		in.unsupported("function without body: " + fn.String())
	}
	if fn.Pkg != nil && !in.W.IsRepoPkg(fn.Pkg) && !interpretablePkg(fn.Pkg.Pkg.Path()) {
		if o := fn.Origin(); o != nil {
			if stub, ok := in.W.Stubs[o.String()]; ok {
				in.StubsUsed[o.String()] = true
				return stub(in, fn, args)
			}
		}
		in.unsupported("no stub for external function " + fn.String())
	}
	if len(in.stack) > 400 {
		in.Events = append(in.Events, Event{Kind: "budget", Msg: "call depth exceeded", Where: in.where()})
		in.end("budget", "call depth")
	}
	lib := fn.Pkg != nil && in.W.IsRepoPkg(fn.Pkg) && !isHarnessFn(fn)
	if lib {
		in.underTest++
		in.FuncsSeen[fn.String()] = true
	}
	isParse := lib && fn.Name() == "Parse" && fn.Pkg.Pkg.Path() == RepoModule+"/internal/parser"
	if isParse {
		in.parseDepth++
	}
	in.stack = append(in.stack, fn)
	defer func() {
		in.stack = in.stack[:len(in.stack)-1]
		if lib {
			in.underTest--
		}
		if isParse {
			in.parseDepth--
		}
	}()

	if lib && fn.Pkg == in.W.Root && (fn.Name() == "Compile" || fn.Name() == "MustCompile") && fn.Signature.Recv() == nil {
		defer func() {
			if r := recover(); r != nil {
				panic(r)
			}
		}()
		res := in.runBody(fn, args, bindings)
		// everything a compiled Expression holds is shared between later calls
		setOriginDeep(res, OrgAST, map[interface{}]bool{})
		return res
	}
	return in.runBody(fn, args, bindings)
}

// runBody interprets the SSA body of fn.
func (in *Interp) runBody(fn *ssa.Function, args []Value, bindings []Value) Value {
	fr := &frame{fn: fn, env: make(map[ssa.Value]Value, 16)}
	for i, p := range fn.Params {
		fr.env[p] = args[i]
	}
	for i, fv := range fn.FreeVars {
		fr.env[fv] = bindings[i]
	}
	block := fn.Blocks[0]
	var prev *ssa.BasicBlock
	for {
		// phis first, simultaneously
		nphi := 0
		if prev != nil {
			var vals []Value
			for _, ins := range block.Instrs {
				phi, ok := ins.(*ssa.Phi)
				if !ok {
					break
				}
				nphi++
				idx := -1
				for i, p := range block.Preds {
					if p == prev {
						idx = i
						break
					}
				}
				vals = append(vals, in.get(fr, phi.Edges[idx]))
			}
			for i := 0; i < nphi; i++ {
				fr.env[block.Instrs[i].(*ssa.Phi)] = vals[i]
			}
		}
		var next *ssa.BasicBlock
		for _, ins := range block.Instrs[nphi:] {
			in.step()
			switch x := ins.(type) {
			case *ssa.If:
				c := in.get(fr, x.Cond).(*Term)
				if in.branch(c) {
					next = block.Succs[0]
				} else {
					next = block.Succs[1]
				}
			case *ssa.Jump:
				next = block.Succs[0]
			case *ssa.Return:
				switch len(x.Results) {
				case 0:
					return nil
				case 1:
					return in.get(fr, x.Results[0])
				}
				tv := make(TupleV, len(x.Results))
				for i, r := range x.Results {
					tv[i] = in.get(fr, r)
				}
				return tv
			case *ssa.Panic:
				v := in.get(fr, x.X)
				in.goPanic("panic: " + in.describe(v))
			default:
				in.exec(fr, ins)
			}
			if next != nil {
				break
			}
		}
		if next == nil {
			panic("block fell through: " + fn.String())
		}
		prev, block = block, next
	}
}

func isHarnessFn(fn *ssa.Function) bool {
	// harness sources are overlaid as zz_verif_*.go
	if fn.Prog == nil {
		return false
	}
	pos := fn.Pos()
	f := fn
	for !pos.IsValid() && f.Parent() != nil {
		f = f.Parent()
		pos = f.Pos()
	}
	if !pos.IsValid() {
		return false
	}
	name := fn.Prog.Fset.Position(pos).Filename
	return strings.Contains(name, "zz_verif_")
}

func interpretablePkg(path string) bool {
	switch path {
	case "errors", "sort", "slices", "cmp", "unicode/utf16", "unicode/utf8", "internal/bytealg", "math/bits", "strings", "internal/stringslite":
		return true
	}
	return false
}

func (in *Interp) describe(v Value) string {
	switch x := v.(type) {
	case IfaceV:
		if x.T == nil {
			return "nil"
		}
		return in.describe(x.V)
	case *StrV:
		if x.IsConc() {
			return x.Conc
		}
		return "<symbolic string>"
	case *Term:
		return x.String()
	}
	return fmt.Sprintf("%T", v)
}

// exec executes one non-control instruction.
func (in *Interp) exec(fr *frame, ins ssa.Instruction) {
	switch x := ins.(type) {
	case *ssa.DebugRef:
	case *ssa.Alloc:
		t := x.Type().(*types.Pointer).Elem()
		org := in.org()
		fr.env[x] = PtrV{&Cell{V: zeroValue(t, org), Org: org, Nm: x.Comment}}
	case *ssa.Store:
		p := in.get(fr, x.Addr).(PtrV)
		if p.R == nil {
			in.goPanic("nil pointer dereference (store)")
		}
		in.store(p.R, copyValue(in.get(fr, x.Val)))
	case *ssa.UnOp:
		fr.env[x] = in.unop(fr, x)
	case *ssa.BinOp:
		fr.env[x] = in.binop(x.Op, x.X.Type(), in.get(fr, x.X), in.get(fr, x.Y), x.Type())
	case *ssa.Call:
		fr.env[x] = in.callInstr(fr, x.Common(), x)
	case *ssa.ChangeInterface:
		fr.env[x] = in.get(fr, x.X)
	case *ssa.ChangeType:
		v := in.get(fr, x.X)
		if s, ok := v.(*StructV); ok {
			c := copyValue(s).(*StructV)
			c.T = x.Type()
			v = c
		}
		fr.env[x] = v
	case *ssa.Convert:
		fr.env[x] = in.convert(in.get(fr, x.X), x.X.Type(), x.Type())
	case *ssa.MultiConvert:
		fr.env[x] = in.convert(in.get(fr, x.X), x.X.Type(), x.Type())
	case *ssa.Extract:
		fr.env[x] = in.get(fr, x.Tuple).(TupleV)[x.Index]
	case *ssa.Field:
		s := in.get(fr, x.X).(*StructV)
		fr.env[x] = copyValue(s.Fields[x.Field])
	case *ssa.FieldAddr:
		p := in.get(fr, x.X).(PtrV)
		if p.R == nil {
			in.goPanic("nil pointer dereference (field)")
		}
		s, ok := p.R.Load().(*StructV)
		if !ok {
			if d, isDec := p.R.Load().(*DecV); isDec {
				_ = d
				in.unsupported("field access into decimal128.Decimal")
			}
			panic(fmt.Sprintf("FieldAddr on %T in %s", p.R.Load(), fr.fn))
		}
		fr.env[x] = PtrV{FieldRef{s, x.Field}}
	case *ssa.Index:
		fr.env[x] = in.indexValue(in.get(fr, x.X), in.get(fr, x.Index).(*Term))
	case *ssa.IndexAddr:
		fr.env[x] = in.indexAddr(in.get(fr, x.X), in.get(fr, x.Index).(*Term))
	case *ssa.Lookup:
		fr.env[x] = in.lookup(in.get(fr, x.X), in.get(fr, x.Index), x.CommaOk, x.Type())
	case *ssa.MakeClosure:
		b := make([]Value, len(x.Bindings))
		for i, bv := range x.Bindings {
			b[i] = in.get(fr, bv)
		}
		fr.env[x] = &FuncV{Fn: x.Fn.(*ssa.Function), Bindings: b}
	case *ssa.MakeInterface:
		v := copyValue(in.get(fr, x.X))
		fr.env[x] = IfaceV{T: x.X.Type(), V: v}
	case *ssa.MakeMap:
		mt := x.Type().Underlying().(*types.Map)
		fr.env[x] = &MapV{Org: in.org(), KT: mt.Key(), VT: mt.Elem()}
	case *ssa.MakeSlice:
		fr.env[x] = in.makeSlice(x.Type(), in.get(fr, x.Len).(*Term), in.get(fr, x.Cap).(*Term))
	case *ssa.MapUpdate:
		m := in.get(fr, x.Map).(*MapV)
		if m == nil {
			in.goPanic("assignment to entry in nil map")
		}
		in.mapUpdate(m, in.get(fr, x.Key), copyValue(in.get(fr, x.Value)))
	case *ssa.Range:
		fr.env[x] = in.makeRange(in.get(fr, x.X))
	case *ssa.Next:
		fr.env[x] = in.next(in.get(fr, x.Iter).(*IterV), x.IsString, x.Type())
	case *ssa.Slice:
		fr.env[x] = in.sliceOp(fr, x)
	case *ssa.TypeAssert:
		fr.env[x] = in.typeAssert(in.get(fr, x.X), x.AssertedType, x.CommaOk, x.Type())
	case *ssa.Defer:
		// operands are evaluated now, the call runs at RunDefers (LIFO). A panic
		// ends the path in this engine, so deferred calls never see one and
		// recover() always returns nil.
		c := &x.Call
		if c.IsInvoke() {
			iv := in.force(in.get(fr, c.Value))
			args := make([]Value, 0, len(c.Args))
			for _, a := range c.Args {
				args = append(args, in.get(fr, a))
			}
			fr.defers = append(fr.defers, func() {
				if iv.T == nil {
					in.goPanic("nil interface method call " + c.Method.Name())
				}
				in.invoke(iv, c.Method, args)
			})
			break
		}
		args := make([]Value, 0, len(c.Args))
		for _, a := range c.Args {
			args = append(args, in.get(fr, a))
		}
		switch f := c.Value.(type) {
		case *ssa.Builtin:
			name := f.Name()
			fr.defers = append(fr.defers, func() {
				if name == "recover" {
					return
				}
				in.builtin(name, args, c, nil)
			})
		case *ssa.Function:
			fr.defers = append(fr.defers, func() { in.CallFunction(f, args, nil) })
		default:
			fv, _ := in.get(fr, c.Value).(*FuncV)
			fr.defers = append(fr.defers, func() {
				if fv == nil {
					in.goPanic("call of nil function")
				}
				in.callFuncV(fv, args)
			})
		}
	case *ssa.RunDefers:
		for len(fr.defers) > 0 {
			d := fr.defers[len(fr.defers)-1]
			fr.defers = fr.defers[:len(fr.defers)-1]
			d()
		}
	default:
		in.unsupported(fmt.Sprintf("instruction %T", ins))
	}
}

func (in *Interp) unop(fr *frame, x *ssa.UnOp) Value {
	v := in.get(fr, x.X)
	switch x.Op {
	case token.MUL: // load
		p := v.(PtrV)
		if p.R == nil {
			in.goPanic("nil pointer dereference (load)")
		}
		return copyValue(p.R.Load())
	case token.NOT:
		return Not(v.(*Term))
	case token.SUB:
		switch t := v.(type) {
		case *Term:
			bits, signed, _ := intBits(x.Type())
			return Wrap(Neg(t), bits, signed)
		case *FloatV:
			n := *t
			if t.Cls == FFinite {
				n.Val = Neg(t.Val)
				if z, ok := t.Val.RatVal(); ok && z.Sign() == 0 {
					n.NegZ = !t.NegZ
				}
			} else if t.Cls == FPosInf {
				n.Cls = FNegInf
			} else if t.Cls == FNegInf {
				n.Cls = FPosInf
			}
			return &n
		}
	case token.XOR:
		if t, ok := v.(*Term); ok {
			bits, signed, _ := intBits(x.Type())
			// ^x = -x-1 (two's complement) for signed; for unsigned 2^bits-1-x
			if signed {
				return Wrap(Sub(Neg(t), IntC(1)), bits, true)
			}
			return Sub(BigC(new(big.Int).Sub(pow2[bits], big.NewInt(1))), t)
		}
	}
	in.unsupported(fmt.Sprintf("unop %v on %T", x.Op, v))
	return nil
}

// ---- calls ------------------------------------------------------------

func (in *Interp) callInstr(fr *frame, c *ssa.CallCommon, site ssa.Value) Value {
	args := make([]Value, 0, len(c.Args)+1)
	if c.IsInvoke() {
		recv := in.get(fr, c.Value)
		iv := in.force(recv)
		if iv.T == nil {
			in.goPanic("nil interface method call " + c.Method.Name())
		}
		for _, a := range c.Args {
			args = append(args, in.get(fr, a))
		}
		return in.invoke(iv, c.Method, args)
	}
	for _, a := range c.Args {
		args = append(args, in.get(fr, a))
	}
	switch f := c.Value.(type) {
	case *ssa.Builtin:
		return in.builtin(f.Name(), args, c, site)
	case *ssa.Function:
		return in.CallFunction(f, args, nil)
	}
	fv := in.get(fr, c.Value)
	fn, ok := fv.(*FuncV)
	if !ok || fn == nil {
		in.goPanic("call of nil function")
	}
	return in.callFuncV(fn, args)
}

func (in *Interp) callFuncV(fn *FuncV, args []Value) Value {
	if fn.Fn == nil {
		in.unsupported("call of builtin func value " + fn.Builtin)
	}
	return in.CallFunction(fn.Fn, args, fn.Bindings)
}

func (in *Interp) invoke(iv IfaceV, m *types.Func, args []Value) Value {
	if nv, ok := iv.V.(*NativeV); ok {
		return in.nativeMethod(nv, iv.T, m.Name(), args)
	}
	var fn *ssa.Function
	if sel := in.W.Prog.MethodSets.MethodSet(iv.T).Lookup(m.Pkg(), m.Name()); sel != nil {
		fn = in.W.Prog.MethodValue(sel)
	}
	if fn == nil {
		in.unsupported(fmt.Sprintf("method %s not found on %v", m.Name(), iv.T))
	}
	all := append([]Value{copyValue(iv.V)}, args...)
	return in.CallFunction(fn, all, nil)
}

func (in *Interp) builtin(name string, args []Value, c *ssa.CallCommon, site ssa.Value) Value {
	switch name {
	case "recover":
		return NilIface // a panic ends the path: there is never one to recover
	case "len":
		switch v := args[0].(type) {
		case *StrV:
			if v.Num != nil || v.Opaque {
				return in.abstractLen(v)
			}
			return IntC(int64(v.Len()))
		case SliceV:
			return IntC(int64(v.Len))
		case *MapV:
			if v == nil {
				return IntC(0)
			}
			return IntC(int64(len(v.Keys)))
		case *ArrayV:
			return IntC(int64(len(v.Elems)))
		case PtrV:
			if a, ok := v.R.Load().(*ArrayV); ok {
				return IntC(int64(len(a.Elems)))
			}
		}
	case "cap":
		switch v := args[0].(type) {
		case SliceV:
			return IntC(int64(v.Cap))
		case *ArrayV:
			return IntC(int64(len(v.Elems)))
		}
	case "append":
		return in.appendOp(args[0].(SliceV), args[1], c.Args[0].Type())
	case "copy":
		dst := args[0].(SliceV)
		n := dst.Len
		switch src := args[1].(type) {
		case SliceV:
			if src.Len < n {
				n = src.Len
			}
			tmp := make([]Value, n)
			for i := 0; i < n; i++ {
				tmp[i] = src.Arr.Elems[src.Off+i]
			}
			for i := 0; i < n; i++ {
				in.store(ElemRef{dst.Arr, dst.Off + i}, copyValue(tmp[i]))
			}
		case *StrV:
			if !src.IsConc() && src.Sym == nil {
				in.unsupported("copy from abstract string")
			}
			if src.Len() < n {
				n = src.Len()
			}
			for i := 0; i < n; i++ {
				in.store(ElemRef{dst.Arr, dst.Off + i}, src.Byte(i))
			}
		}
		return IntC(int64(n))
	case "delete":
		m := args[0].(*MapV)
		if m == nil {
			return nil
		}
		idx := in.mapFind(m, args[1])
		if idx >= 0 {
			if in.monitorOn && in.underTest > 0 && (m.Org == OrgDoc || (m.Org == OrgAST && in.parseDepth == 0) || m.Org == OrgGlobal) {
				in.Events = append(in.Events, Event{Kind: "sharedwrite", Msg: "delete from " + m.Org.String() + " map", Where: in.where(), Stack: in.stackNames()})
			}
			m.Keys = append(m.Keys[:idx:idx], m.Keys[idx+1:]...)
			m.Vals = append(m.Vals[:idx:idx], m.Vals[idx+1:]...)
		}
		return nil
	case "min", "max":
		acc := args[0].(*Term)
		for _, a := range args[1:] {
			t := a.(*Term)
			if name == "min" {
				acc = Ite(Lt(t, acc), t, acc)
			} else {
				acc = Ite(Gt(t, acc), t, acc)
			}
		}
		return acc
	case "print", "println":
		return nil
	case "clear":
		switch v := args[0].(type) {
		case *MapV:
			v.Keys, v.Vals = nil, nil
		}
		return nil
	}
	in.unsupported("builtin " + name)
	return nil
}

// ---- type assertion / interfaces ---------------------------------------------

func (in *Interp) implements(dyn types.Type, iface *types.Interface) bool {
	if iface.Empty() {
		return true
	}
	return types.Implements(dyn, iface)
}

func (in *Interp) typeMatches(dyn types.Type, asserted types.Type) bool {
	if it, ok := asserted.Underlying().(*types.Interface); ok {
		return in.implements(dyn, it)
	}
	return types.Identical(dyn, asserted)
}

func (in *Interp) typeAssert(v Value, asserted types.Type, commaOk bool, resT types.Type) Value {
	var iv IfaceV
	switch x := v.(type) {
	case *LazyV:
		iv = in.lazyAssert(x, asserted)
		if iv.T == nil && x.Res == nil {
			// narrowed, not matching: fail without resolving
			if commaOk {
				return TupleV{zeroValue(asserted, in.org()), False}
			}
			in.goPanic("interface conversion: type assertion failed")
		}
	case IfaceV:
		iv = x
	default:
		panic(fmt.Sprintf("typeAssert on %T", v))
	}
	ok := iv.T != nil && in.typeMatches(iv.T, asserted)
	var res Value
	if ok {
		if _, isI := asserted.Underlying().(*types.Interface); isI {
			res = iv
		} else {
			res = copyValue(iv.V)
		}
	} else {
		res = zeroValue(asserted, in.org())
	}
	if commaOk {
		return TupleV{res, BoolC(ok)}
	}
	if !ok {
		in.goPanic("interface conversion: type assertion failed")
	}
	return res
}

// force resolves a possibly lazy interface value completely.
func (in *Interp) force(v Value) IfaceV {
	switch x := v.(type) {
	case IfaceV:
		return x
	case *LazyV:
		return in.lazyForce(x)
	}
	panic(fmt.Sprintf("force on %T", v))
}

// ---- binops ------------------------------------------------------------------

func (in *Interp) binop(op token.Token, xt types.Type, a, b Value, rt types.Type) Value {
	switch x := a.(type) {
	case *Term:
		y := b.(*Term)
		if x.sort == SBool {
			switch op {
			case token.EQL:
				return Eq(x, y)
			case token.NEQ:
				return Not(Eq(x, y))
			case token.AND, token.LAND:
				return And(x, y)
			case token.OR, token.LOR:
				return Or(x, y)
			}
			in.unsupported("bool binop " + op.String())
		}
		return in.intBinop(op, xt, x, y, rt)
	case *StrV:
		y := b.(*StrV)
		return in.strBinop(op, x, y)
	case *FloatV:
		return in.floatBinop(op, x, b.(*FloatV))
	case *DecV:
		if op == token.EQL || op == token.NEQ {
			eq := in.valueEqual(a, b)
			if op == token.EQL {
				return eq
			}
			return Not(eq)
		}
	case PtrV:
		y := b.(PtrV)
		eq := ptrEqual(x, y)
		if op == token.EQL {
			return BoolC(eq)
		}
		return BoolC(!eq)
	case IfaceV, *LazyV:
		eq := in.ifaceEqual(a, b)
		if op == token.EQL {
			return eq
		}
		return Not(eq)
	case SliceV:
		// only comparison with nil
		y := b.(SliceV)
		eq := x.Arr == nil && y.Arr == nil
		if op == token.EQL {
			return BoolC(eq)
		}
		return BoolC(!eq)
	case *MapV:
		y := b.(*MapV)
		eq := x == y
		if op == token.EQL {
			return BoolC(eq)
		}
		return BoolC(!eq)
	case *FuncV:
		y := b.(*FuncV)
		eq := x == nil && y == nil
		if op == token.EQL {
			return BoolC(eq)
		}
		return BoolC(!eq)
	case *StructV:
		eq := in.valueEqual(a, b)
		if op == token.EQL {
			return eq
		}
		return Not(eq)
	case *ArrayV:
		eq := in.valueEqual(a, b)
		if op == token.EQL {
			return eq
		}
		return Not(eq)
	case nil:
		if op == token.EQL {
			return BoolC(b == nil)
		}
		return BoolC(b != nil)
	}
	in.unsupported(fmt.Sprintf("binop %v on %T", op, a))
	return nil
}

func ptrEqual(x, y PtrV) bool {
	if x.R == nil || y.R == nil {
		return x.R == nil && y.R == nil
	}
	switch a := x.R.(type) {
	case *Cell:
		b, ok := y.R.(*Cell)
		return ok && a == b
	case FieldRef:
		b, ok := y.R.(FieldRef)
		return ok && a.S == b.S && a.I == b.I
	case ElemRef:
		b, ok := y.R.(ElemRef)
		return ok && a.A == b.A && a.I == b.I
	}
	return false
}

// valueEqual is Go's == on comparable values, as a Bool term.
func (in *Interp) valueEqual(a, b Value) *Term {
	switch x := a.(type) {
	case *Term:
		return Eq(x, b.(*Term))
	case *StrV:
		return in.strEq(x, b.(*StrV))
	case *FloatV:
		return in.floatBinop(token.EQL, x, b.(*FloatV)).(*Term)
	case PtrV:
		return BoolC(ptrEqual(x, b.(PtrV)))
	case IfaceV, *LazyV:
		return in.ifaceEqual(a, b)
	case *StructV:
		y := b.(*StructV)
		var cs []*Term
		for i := range x.Fields {
			cs = append(cs, in.valueEqual(x.Fields[i], y.Fields[i]))
		}
		return And(cs...)
	case *ArrayV:
		y := b.(*ArrayV)
		var cs []*Term
		for i := range x.Elems {
			cs = append(cs, in.valueEqual(x.Elems[i], y.Elems[i]))
		}
		return And(cs...)
	case *NativeV:
		y, ok := b.(*NativeV)
		if ok && x.Kind == "rtype" && y.Kind == "rtype" {
			tx, okx := x.V.(types.Type)
			ty, oky := y.V.(types.Type)
			if okx && oky {
				return BoolC(types.Identical(tx, ty))
			}
		}
		return BoolC(ok && x == y)
	case *DecV:
		// Go's == on the struct compares the encoding, not the number: equal
		// encodings denote equal values, equal values may have different
		// encodings (1.0 / 1, cohorts). The abstraction keeps the value only,
		// so for equal values both answers are explored (a candidate built on
		// the "different encoding" answer is confirmed or dropped by replay).
		y, ok := b.(*DecV)
		if !ok {
			return False
		}
		if x == y {
			return True
		}
		if x.Cls != y.Cls {
			return False
		}
		if x.Cls == DFinite {
			if in.decide("deceq", []*Term{Not(Eq(x.Val, y.Val)), Eq(x.Val, y.Val)}) == 0 {
				return False
			}
			if x.Exp != nil && y.Exp != nil {
				// equal values: the encodings coincide exactly when the exponents do
				// (zero keeps its sign and exponent too)
				return BoolC(*x.Exp == *y.Exp && x.NegZ == y.NegZ)
			}
		}
		return BoolC(in.choose("decrepr", 2) == 0)
	case *MapV, SliceV, *FuncV:
		in.goPanic("runtime error: comparing uncomparable type")
	}
	in.unsupported(fmt.Sprintf("valueEqual on %T", a))
	return nil
}

func (in *Interp) ifaceEqual(a, b Value) *Term {
	// fast path: comparison of a lazy value with nil interface
	if la, ok := a.(*LazyV); ok && la.Res == nil {
		if ib, ok := b.(IfaceV); ok && ib.T == nil {
			return BoolC(in.lazyIsNil(la))
		}
	}
	if lb, ok := b.(*LazyV); ok && lb.Res == nil {
		if ia, ok := a.(IfaceV); ok && ia.T == nil {
			return BoolC(in.lazyIsNil(lb))
		}
	}
	x, y := in.force(a), in.force(b)
	if x.T == nil || y.T == nil {
		return BoolC(x.T == nil && y.T == nil)
	}
	if !types.Identical(x.T, y.T) {
		return False
	}
	return in.valueEqual(x.V, y.V)
}

func (in *Interp) intBinop(op token.Token, xt types.Type, x, y *Term, rt types.Type) Value {
	switch op {
	case token.EQL:
		return Eq(x, y)
	case token.NEQ:
		return Not(Eq(x, y))
	case token.LSS:
		return Lt(x, y)
	case token.LEQ:
		return Le(x, y)
	case token.GTR:
		return Lt(y, x)
	case token.GEQ:
		return Le(y, x)
	}
	bits, signed, ok := intBits(xt)
	if !ok {
		in.unsupported(fmt.Sprintf("int binop on type %v", xt))
	}
	switch op {
	case token.ADD:
		return in.wrap(Add(x, y), bits, signed)
	case token.SUB:
		return in.wrap(Sub(x, y), bits, signed)
	case token.MUL:
		return in.wrap(Mul(x, y), bits, signed)
	case token.QUO, token.REM:
		if in.branch(Eq(y, IntC(0))) {
			in.goPanic("runtime error: integer divide by zero")
		}
		q := truncDiv(x, y)
		if op == token.QUO {
			return Wrap(q, bits, signed)
		}
		// x - q*y ; careful with MinInt / -1: q wraps but remainder is 0
		return Wrap(Sub(x, Mul(q, y)), bits, signed)
	case token.SHL, token.SHR:
		k, ok := y.Int64Val()
		if !ok {
			if xv, okx := x.IntVal(); okx {
				_ = xv
			}
			in.unsupported("shift by symbolic amount")
		}
		if k < 0 {
			in.goPanic("runtime error: negative shift amount")
		}
		if k >= 128 {
			k = 127
		}
		if op == token.SHL {
			if k >= int64(bits) {
				return IntC(0)
			}
			return Wrap(Mul(x, BigC(pow2[k])), bits, signed)
		}
		return EDiv(x, BigC(pow2[k])) // floor division = arithmetic shift
	case token.AND, token.OR, token.XOR, token.AND_NOT:
		xv, okx := x.IntVal()
		yv, oky := y.IntVal()
		if okx && oky {
			r := new(big.Int)
			// operate on two's complement: big.Int bit ops do that for negatives
			switch op {
			case token.AND:
				r.And(xv, yv)
			case token.OR:
				r.Or(xv, yv)
			case token.XOR:
				r.Xor(xv, yv)
			case token.AND_NOT:
				r.AndNot(xv, yv)
			}
			return Wrap(BigC(r), bits, signed)
		}
		if op == token.AND {
			if okx {
				x, y, yv = y, x, xv
				oky = true
			}
			if oky && x.lo != nil && x.lo.Sign() >= 0 {
				// mask 2^k - 1
				m := new(big.Int).Add(yv, big.NewInt(1))
				if yv.Sign() >= 0 && m.BitLen() > 0 && new(big.Int).And(m, yv).Sign() == 0 {
					return EMod(x, BigC(m))
				}
				// high mask within the value's range: (2^n-1) - (2^k-1)
				if x.hi != nil {
					n := x.hi.BitLen()
					full := new(big.Int).Sub(pow2[n], big.NewInt(1))
					masked := new(big.Int).And(yv, full)
					low := new(big.Int).Sub(full, masked) // should be 2^k-1
					lp := new(big.Int).Add(low, big.NewInt(1))
					if new(big.Int).And(lp, low).Sign() == 0 {
						return Mul(EDiv(x, BigC(lp)), BigC(lp))
					}
				}
			}
		}
		if op == token.OR && !okx && !oky {
			// (a << k) | b with 0 <= b < 2^k (path-refined): the bit ranges are disjoint
			for _, pr := range [][2]*Term{{x, y}, {y, x}} {
				hiT, loT := pr[0], pr[1]
				tz := termTrailingZeros(hiT)
				lo, hi := in.ival(loT)
				if tz > 0 && lo != nil && lo.Sign() >= 0 && hi != nil && uint(hi.BitLen()) <= tz {
					return Wrap(Add(hiT, loT), bits, signed)
				}
			}
		}
		if op == token.OR && (okx || oky) {
			// v | c where every set bit of c lies above v's range (path-refined): v + c
			v, c, cv := x, y, yv
			if okx {
				v, c, cv = y, x, xv
			}
			if cv.Sign() == 0 {
				return v
			}
			lo, hi := in.ival(v)
			if cv.Sign() > 0 && lo != nil && lo.Sign() >= 0 && hi != nil && hi.BitLen() <= int(trailingZeros(cv)) {
				return Add(v, c)
			}
		}
		in.unsupported("bit operation " + op.String() + " on symbolic operands")
	}
	in.unsupported("int binop " + op.String())
	return nil
}

// termTrailingZeros: a number of low bits that are certainly zero in t.
func termTrailingZeros(t *Term) uint {
	switch t.op {
	case OConst:
		if t.iv != nil {
			if t.iv.Sign() == 0 {
				return 64
			}
			return t.iv.TrailingZeroBits()
		}
	case OMul:
		var n uint
		for _, a := range t.args {
			n += termTrailingZeros(a)
		}
		if n > 64 {
			n = 64
		}
		return n
	case OAdd, OSub:
		n := uint(64)
		for _, a := range t.args {
			if k := termTrailingZeros(a); k < n {
				n = k
			}
		}
		return n
	}
	return 0
}

func trailingZeros(v *big.Int) uint {
	if v.Sign() == 0 {
		return 1 << 20
	}
	return v.TrailingZeroBits()
}

// truncDiv is Go's truncated division on mathematical integers (y != 0).
func truncDiv(x, y *Term) *Term {
	if xv, ok := x.IntVal(); ok {
		if yv, ok := y.IntVal(); ok {
			return BigC(new(big.Int).Quo(xv, yv))
		}
	}
	// SMT div is Euclidean: x = y*q + r, 0 <= r < |y|.
	// trunc(x/y) = q if x >= 0 or r == 0; else q+1 if y > 0, q-1 if y < 0.
	q := EDiv(x, y)
	r := EMod(x, y)
	if x.lo != nil && x.lo.Sign() >= 0 {
		return q
	}
	adj := Ite(Gt(y, IntC(0)), Add(q, IntC(1)), Sub(q, IntC(1)))
	return Ite(Or(Ge(x, IntC(0)), Eq(r, IntC(0))), q, adj)
}

// tokenNext replaces (*Lexer).Next while a lazy token sequence is active and
// the lexer was created for the token-mode marker expression: the real lexer
// runs on the token's text (so token classification is the real code) and the
// result is handed to the parser.
func (in *Interp) tokenNext(args []Value) (Value, bool) {
	lp := args[0].(PtrV)
	ls := lp.R.Load().(*StructV)
	src, ok := ls.Fields[0].(*StrV)
	if !ok || !src.IsConc() || src.Conc != "\x00TOKENS\x00" {
		return nil, false
	}
	pos, _ := ls.Fields[1].(*Term).Int64Val()
	in.tok.nextCalls++
	text := in.tokenAt(int(pos))
	ls.Fields[1] = IntC(pos + 1)
	tp := args[1].(PtrV)
	lexPkg := in.W.Pkgs[RepoModule+"/internal/lexer"]
	// run the real lexer on the token text alone
	tmp := &StructV{T: ls.T, Fields: []Value{ConcStr(text), IntC(0)}, Org: in.org()}
	fn := in.W.Prog.LookupMethod(types.NewPointer(lexPkg.Type("Lexer").Type()), lexPkg.Pkg, "Next")
	saved := in.tok
	in.tok = nil
	res := in.CallFunction(fn, []Value{PtrV{&Cell{V: tmp, Org: in.org()}}, tp}, nil)
	in.tok = saved
	return res, true
}
