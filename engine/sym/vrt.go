package sym

import (
	"fmt"
	"math/big"
	"os"
	"strings"

	"golang.org/x/tools/go/ssa"
)

type StubFn func(in *Interp, fn *ssa.Function, args []Value) Value

// Draw records one nondeterministic input handed to the harness, so that a
// counterexample can be replayed natively by the same harness code.
type Draw struct {
	Kind string // int, bool, choose, str, doc, magic
	Name string
	T    *Term
	S    *StrV
	V    Value
	N    int
	Fmt  string
	Ints []*Term
}

func cstr(in *Interp, v Value) string {
	s := v.(*StrV)
	if !s.IsConc() {
		in.unsupported("vrt: non-constant string argument")
	}
	return s.Conc
}

func cint(in *Interp, v Value) int {
	i, ok := v.(*Term).Int64Val()
	if !ok {
		in.unsupported("vrt: non-constant int argument")
	}
	return int(i)
}

func registerVrt(w *World) {
	p := RepoModule + "."
	w.Stubs[p+"vrtInt"] = func(in *Interp, fn *ssa.Function, args []Value) Value {
		name := cstr(in, args[0])
		lo, hi := typeRange(64, true)
		t := in.freshInt(name, lo, hi)
		in.Draws = append(in.Draws, &Draw{Kind: "int", Name: name, T: t})
		return t
	}
	w.Stubs[p+"vrtIntRange"] = func(in *Interp, fn *ssa.Function, args []Value) Value {
		name := cstr(in, args[0])
		t := in.freshIntR(name, int64(cint(in, args[1])), int64(cint(in, args[2])))
		in.Draws = append(in.Draws, &Draw{Kind: "int", Name: name, T: t})
		return t
	}
	w.Stubs[p+"vrtBool"] = func(in *Interp, fn *ssa.Function, args []Value) Value {
		name := cstr(in, args[0])
		t := in.freshBool(name)
		in.Draws = append(in.Draws, &Draw{Kind: "bool", Name: name, T: t})
		return t
	}
	w.Stubs[p+"vrtChoose"] = func(in *Interp, fn *ssa.Function, args []Value) Value {
		name := cstr(in, args[0])
		if fix := os.Getenv("VERIF_FIX"); fix != "" {
			for _, kv := range strings.Split(fix, ",") {
				if p := strings.SplitN(kv, ":", 2); len(p) == 2 && p[0] == name {
					var v int
					fmt.Sscan(p[1], &v)
					in.Draws = append(in.Draws, &Draw{Kind: "choose", Name: name, N: v})
					return IntC(int64(v))
				}
			}
		}
		k := in.choose("vrt:"+name, cint(in, args[1]))
		in.Draws = append(in.Draws, &Draw{Kind: "choose", Name: name, N: k})
		return IntC(int64(k))
	}
	// vrtStr(name, maxRunes, mode): string of 0..maxRunes code points
	w.Stubs[p+"vrtStr"] = func(in *Interp, fn *ssa.Function, args []Value) Value {
		name := cstr(in, args[0])
		maxN, mode := cint(in, args[1]), cint(in, args[2])
		n := in.choose("strlen", maxN+1)
		s := in.symStringN(name, n, mode&3, mode>>2)
		in.Draws = append(in.Draws, &Draw{Kind: "str", Name: name, S: s})
		return s
	}
	// vrtStrN(name, runes, mode): exactly n code points
	w.Stubs[p+"vrtStrN"] = func(in *Interp, fn *ssa.Function, args []Value) Value {
		name := cstr(in, args[0])
		n, mode := cint(in, args[1]), cint(in, args[2])
		s := in.symStringN(name, n, mode&3, mode>>2)
		in.Draws = append(in.Draws, &Draw{Kind: "str", Name: name, S: s})
		return s
	}
	// vrtSpec(A, O, S, keys, strMode, numForms, flags)
	w.Stubs[p+"vrtSpec"] = func(in *Interp, fn *ssa.Function, args []Value) Value {
		in.spec.A, in.spec.O, in.spec.S = cint(in, args[0]), cint(in, args[1]), cint(in, args[2])
		ks := cstr(in, args[3])
		in.spec.Keys = nil
		if ks != "" {
			in.spec.Keys = strings.Split(ks, ",")
		}
		sm := cint(in, args[4])
		in.spec.StrMode = sm & 3
		in.spec.WidthCls = sm >> 2
		in.spec.NumForms = cint(in, args[5])
		flags := cint(in, args[6])
		in.spec.OrderForks = flags&1 != 0
		in.spec.Spare = flags&2 == 0
		if flags&4 != 0 {
			in.spec.FloatCls = 0xF
			in.spec.DecCls = 0xF
		} else {
			in.spec.FloatCls = 1 << FFinite
			in.spec.DecCls = 1 << DFinite
		}
		return nil
	}
	w.Stubs[p+"vrtNested"] = func(in *Interp, fn *ssa.Function, args []Value) Value {
		in.spec.ANested = cint(in, args[0])
		return nil
	}
	w.Stubs[p+"vrtNumRange"] = func(in *Interp, fn *ssa.Function, args []Value) Value {
		lo, _ := args[0].(*Term).IntVal()
		hi, _ := args[1].(*Term).IntVal()
		in.spec.NumLo, in.spec.NumHi = lo, hi
		return nil
	}
	w.Stubs[p+"vrtStrAlphabet"] = func(in *Interp, fn *ssa.Function, args []Value) Value {
		in.spec.StrMode = 3
		in.spec.StrAlpha = strings.Split(cstr(in, args[0]), "|")
		return nil
	}
	// vrtDoc(name, depth, universe, childUniverse)
	w.Stubs[p+"vrtDoc"] = func(in *Interp, fn *ssa.Function, args []Value) Value {
		name := cstr(in, args[0])
		depth := cint(in, args[1])
		u := uint32(cint(in, args[2]))
		cu := uint32(cint(in, args[3]))
		l := in.newLazy(name, depth, u, cu)
		in.Draws = append(in.Draws, &Draw{Kind: "doc", Name: name, V: l})
		return l
	}
	w.Stubs[p+"vrtAssume"] = func(in *Interp, fn *ssa.Function, args []Value) Value {
		c := args[0].(*Term)
		if b, ok := c.BoolVal(); ok {
			if !b {
				in.end("assumed", "assumption false")
			}
			return nil
		}
		in.addPC(c)
		if r, _ := in.query(); r == Unsat {
			in.end("assumed", "assumption unsatisfiable")
		}
		return nil
	}
	w.Stubs[p+"vrtAssert"] = func(in *Interp, fn *ssa.Function, args []Value) Value {
		c := args[0].(*Term)
		msg := cstr(in, args[1])
		in.assertsHit++
		if b, ok := c.BoolVal(); ok {
			if !b {
				// the assertion fails on this path: a violation only if the path
				// itself is feasible (a branch the solver could not decide may
				// have been kept although it is infeasible)
				r, model := in.query()
				switch r {
				case Sat:
					in.violation(msg, model)
					in.end("violation", msg)
				case Unsat:
					in.end("infeasible", "path condition unsatisfiable at a failing assertion")
				default:
					in.Events = append(in.Events, Event{Kind: "inconclusive", Msg: "solver unknown on the path condition of a failing assertion: " + msg, Where: in.where()})
					in.end("inconclusive", msg)
				}
			}
			return nil
		}
		r, model := in.query(Not(c))
		switch r {
		case Sat:
			in.violation(msg, model)
			// continue on the satisfying side if any
			in.pc = append(in.pc, c)
			if r2, _ := in.query(); r2 == Unsat {
				in.end("violation", msg)
			}
		case Unknown:
			in.Events = append(in.Events, Event{Kind: "inconclusive", Msg: "solver unknown on assertion: " + msg, Where: in.where()})
			in.pc = append(in.pc, c)
		default:
			in.crossUnsat(Not(c))
			in.pc = append(in.pc, c)
		}
		return nil
	}
	w.Stubs[p+"vrtReach"] = func(in *Interp, fn *ssa.Function, args []Value) Value {
		in.tags["reach:"+cstr(in, args[0])] = "1"
		return nil
	}
	w.Stubs[p+"vrtNote"] = func(in *Interp, fn *ssa.Function, args []Value) Value {
		s := args[0].(*StrV)
		if s.IsConc() {
			in.noteList = append(in.noteList, s.Conc)
		}
		return nil
	}
	// vrtMagic(format, ints...) : template with symbolic integer literals
	w.Stubs[p+"vrtMagic"] = func(in *Interp, fn *ssa.Function, args []Value) Value {
		f := cstr(in, args[0])
		ints := args[1].(SliceV)
		var sb strings.Builder
		k := 0
		var terms []*Term
		for i := 0; i < len(f); i++ {
			if f[i] == '%' && i+1 < len(f) && f[i+1] == 'd' {
				t := ints.Arr.Elems[ints.Off+k].(*Term)
				k++
				terms = append(terms, t)
				if v, ok := t.Int64Val(); ok {
					fmt.Fprintf(&sb, "%d", v)
				} else {
					ph := fmt.Sprintf("77%05d", len(in.magicInts)+1)
					in.magicInts[ph] = t
					sb.WriteString(ph)
				}
				i++
				continue
			}
			sb.WriteByte(f[i])
		}
		in.Draws = append(in.Draws, &Draw{Kind: "magic", Fmt: f, Ints: terms})
		return ConcStr(sb.String())
	}
	w.Stubs[p+"vrtPanics"] = func(in *Interp, fn *ssa.Function, args []Value) Value {
		f := args[0].(*FuncV)
		return BoolC(in.catches(func() { in.callFuncV(f, nil) }))
	}
	w.Stubs[p+"vrtMonitor"] = func(in *Interp, fn *ssa.Function, args []Value) Value {
		b, _ := args[0].(*Term).BoolVal()
		in.monitorOn = b
		return nil
	}
	w.Stubs[p+"vrtSteps"] = func(in *Interp, fn *ssa.Function, args []Value) Value {
		return IntC(int64(in.steps))
	}
	w.Stubs[p+"vrtSymbolic"] = func(in *Interp, fn *ssa.Function, args []Value) Value {
		return True
	}
	w.Stubs[p+"vrtTier"] = func(in *Interp, fn *ssa.Function, args []Value) Value {
		if in.Cfg.Tier == "thorough" {
			return IntC(1)
		}
		return IntC(0)
	}
	w.Stubs[p+"vrtMaxAlloc"] = func(in *Interp, fn *ssa.Function, args []Value) Value {
		in.Cfg.MaxAlloc = cint(in, args[0])
		return nil
	}
	w.Stubs[p+"vrtBudget"] = func(in *Interp, fn *ssa.Function, args []Value) Value {
		in.Budget = in.steps + cint(in, args[0])
		return nil
	}
	// vrtIsConcrete reports whether a value is fully concrete (harness use)
	w.Stubs[p+"vrtValidUTF8"] = func(in *Interp, fn *ssa.Function, args []Value) Value {
		s := args[0].(*StrV)
		in.needBytes(s, "utf8 validity")
		pos := 0
		for pos < s.Len() {
			_, sz := in.decodeRune(s, pos)
			if sz == 1 {
				// either ASCII or invalid: check byte < 0x80
				if !in.branch(Lt(s.Byte(pos), IntC(0x80))) {
					return False
				}
			}
			pos += sz
		}
		return True
	}
	// number leaves: vrtNum(name, forms) returns json.Number abstract text
	w.Stubs[p+"vrtJNum"] = func(in *Interp, fn *ssa.Function, args []Value) Value {
		name := cstr(in, args[0])
		spec := in.spec
		spec.NumForms = cint(in, args[1])
		s := in.symNumStr(name, &spec)
		in.Draws = append(in.Draws, &Draw{Kind: "jnum", Name: name, S: s})
		return s
	}
	// vrtKnown(id, inRegion): marks the path as lying inside the input region of
	// a recorded known finding; violations on such paths are attributed to it.
	w.Stubs[p+"vrtKnown"] = func(in *Interp, fn *ssa.Function, args []Value) Value {
		id := cstr(in, args[0])
		c := args[1].(*Term)
		if in.branch(c) {
			in.noteList = append(in.noteList, "known:"+id)
			return True
		}
		return False
	}
	// vrtJNumFrom(k, form): the JSON number text spelling integer k in the given
	// form (nfInt: "k", nfDot: "k.0", nfExp: "ke0", nfFrac: k/10 as "x.y")
	w.Stubs[p+"vrtJNumFrom"] = func(in *Interp, fn *ssa.Function, args []Value) Value {
		k := args[0].(*Term)
		form := cint(in, args[1])
		nt := &NumText{K: k}
		switch form {
		case 1 << NFDot:
			nt.Form = NFDot
		case 1 << NFExp:
			nt.Form = NFExp
		case 1 << 8:
			nt.Form, nt.Scale = NFDot, 1
		default:
			nt.Form = NFInt
		}
		return &StrV{Num: nt}
	}
	// ---- lazy token sequences (C04 / C03 / C09 parser harness) ----
	// vrtTokenExpr(k, alphabet): enables the lexer override: (*Lexer).Next hands
	// out tokens chosen lazily from the alphabet (at most k, then End).
	w.Stubs[p+"vrtTokenExpr"] = func(in *Interp, fn *ssa.Function, args []Value) Value {
		in.tok = &tokenMode{max: cint(in, args[0]), alphabet: strings.Split(cstr(in, args[1]), "\x1f")}
		in.Draws = append(in.Draws, &Draw{Kind: "tokens", Name: "tokens"})
		return ConcStr("\x00TOKENS\x00")
	}
	// vrtTokenText(i): text of token i ("" = end of input)
	w.Stubs[p+"vrtTokenText"] = func(in *Interp, fn *ssa.Function, args []Value) Value {
		return ConcStr(in.tokenAt(cint(in, args[0])))
	}
	w.Stubs[p+"vrtTokensSoFar"] = func(in *Interp, fn *ssa.Function, args []Value) Value {
		var ts []string
		if in.tok != nil {
			for _, t := range in.tok.chosen {
				if t == "" {
					break
				}
				ts = append(ts, t)
			}
		}
		return ConcStr(strings.Join(ts, " "))
	}
	w.Stubs[p+"vrtTokensUsed"] = func(in *Interp, fn *ssa.Function, args []Value) Value {
		if in.tok == nil {
			return IntC(0)
		}
		return IntC(int64(in.tok.nextCalls))
	}
	// vrtUntouched: the lazily typed value was never inspected
	w.Stubs[p+"vrtUntouched"] = func(in *Interp, fn *ssa.Function, args []Value) Value {
		l, ok := args[0].(*LazyV)
		return BoolC(ok && l.Res == nil && !l.Touched)
	}
	w.Stubs[p+"vrtSameObject"] = func(in *Interp, fn *ssa.Function, args []Value) Value {
		return BoolC(sameObject(args[0], args[1]))
	}
	w.Stubs[p+"vrtEventCount"] = func(in *Interp, fn *ssa.Function, args []Value) Value {
		kind := cstr(in, args[0])
		n := 0
		for _, e := range in.Events {
			if e.Kind == kind {
				n++
			}
		}
		return IntC(int64(n))
	}
}

func sameObject(a, b Value) bool {
	if la, ok := a.(*LazyV); ok {
		if lb, ok := b.(*LazyV); ok {
			return la == lb
		}
		if la.Res == nil {
			return false
		}
		a = *la.Res
	}
	if lb, ok := b.(*LazyV); ok {
		if lb.Res == nil {
			return false
		}
		b = *lb.Res
	}
	ia, ok1 := a.(IfaceV)
	ib, ok2 := b.(IfaceV)
	if !ok1 || !ok2 {
		return false
	}
	switch x := ia.V.(type) {
	case SliceV:
		y, ok := ib.V.(SliceV)
		return ok && x.Arr == y.Arr && x.Off == y.Off && x.Len == y.Len
	case *MapV:
		y, ok := ib.V.(*MapV)
		return ok && x == y
	}
	return false
}

func (in *Interp) violation(msg string, model map[string]*Term) {
	in.Events = append(in.Events, Event{Kind: "violation", Msg: msg, Where: in.where(), Model: model})
}

// catches runs f and reports whether interpreted code panicked.
func (in *Interp) catches(f func()) (panicked bool) {
	depth := len(in.stack)
	ut := in.underTest
	pd := in.parseDepth
	defer func() {
		if r := recover(); r != nil {
			if _, ok := r.(goPanic); ok {
				in.stack = in.stack[:depth]
				in.underTest = ut
				in.parseDepth = pd
				panicked = true
				return
			}
			panic(r)
		}
	}()
	f()
	return false
}

// CexValues concretises all draws under a model.
func (in *Interp) CexValues(m map[string]*Term) []map[string]interface{} {
	var out []map[string]interface{}
	for _, d := range in.Draws {
		e := map[string]interface{}{"kind": d.Kind, "name": d.Name}
		switch d.Kind {
		case "int":
			v, _ := Eval(d.T, m).IntVal()
			if v == nil {
				v = big.NewInt(0)
			}
			e["v"] = v.String()
		case "bool":
			b, _ := Eval(d.T, m).BoolVal()
			e["v"] = b
		case "choose":
			e["v"] = d.N
		case "str":
			e["x"] = fmt.Sprintf("%x", strConcrete(d.S, m))
		case "jnum":
			e["v"] = string(strConcrete(d.S, m))
		case "doc":
			e["v"] = in.concretizeValue(d.V, nil, m)
		case "tokens":
			var ts []string
			if in.tok != nil {
				for _, t := range in.tok.chosen {
					if t == "" {
						break
					}
					ts = append(ts, t)
				}
			}
			e["v"] = strings.Join(ts, " ")
		case "magic":
			var vs []string
			for _, t := range d.Ints {
				v, _ := Eval(t, m).IntVal()
				if v == nil {
					v = big.NewInt(0)
				}
				vs = append(vs, v.String())
			}
			e["fmt"] = d.Fmt
			e["ints"] = vs
		}
		out = append(out, e)
	}
	return out
}

type tokenMode struct {
	max       int
	alphabet  []string
	chosen    []string // "" = end
	nextCalls int
}

// tokenAt materialises token i lazily.
func (in *Interp) tokenAt(i int) string {
	t := in.tok
	if t == nil {
		in.unsupported("token mode not enabled")
	}
	for len(t.chosen) <= i {
		j := len(t.chosen)
		if j >= t.max || (j > 0 && t.chosen[j-1] == "") {
			t.chosen = append(t.chosen, "")
			continue
		}
		k := in.choose("token", len(t.alphabet)+1)
		if k == len(t.alphabet) {
			t.chosen = append(t.chosen, "")
		} else {
			t.chosen = append(t.chosen, t.alphabet[k])
		}
	}
	return t.chosen[i]
}
