package sym

import (
	"fmt"
	"go/token"
	"go/types"
	"math"
	"math/big"
	"unicode/utf8"

	"golang.org/x/tools/go/ssa"
)

// ---- strings ---------------------------------------------------------------

func (in *Interp) needBytes(s *StrV, what string) {
	if s.Num != nil || s.Opaque {
		in.unsupported("byte-level " + what + " on abstract string")
	}
}

func (in *Interp) abstractLen(s *StrV) *Term {
	if s.Num != nil {
		if s.Num.Form == NFBad {
			// invalid number texts used by harnesses are non-empty unless stated
			return in.freshIntR("numlen", 0, 64)
		}
		return in.freshIntR("numlen", 1, 64)
	}
	return in.freshIntR("opaquelen", 0, 1<<20)
}

func (in *Interp) strEq(x, y *StrV) *Term {
	if x.IsConc() && y.IsConc() {
		return BoolC(x.Conc == y.Conc)
	}
	if x.Num != nil || y.Num != nil || x.Opaque || y.Opaque {
		if x == y {
			return True
		}
		in.unsupported("== on abstract strings")
	}
	if x.Len() != y.Len() {
		return False
	}
	cs := make([]*Term, 0, x.Len())
	for i := 0; i < x.Len(); i++ {
		cs = append(cs, Eq(x.Byte(i), y.Byte(i)))
	}
	return And(cs...)
}

// strLess builds x < y (bytewise lexicographic) as a term.
func (in *Interp) strLess(x, y *StrV, orEq bool) *Term {
	in.needBytes(x, "compare")
	in.needBytes(y, "compare")
	n := x.Len()
	if y.Len() < n {
		n = y.Len()
	}
	// tail: if common prefix equal
	var tail *Term
	if orEq {
		tail = BoolC(x.Len() <= y.Len())
	} else {
		tail = BoolC(x.Len() < y.Len())
	}
	res := tail
	for i := n - 1; i >= 0; i-- {
		a, b := x.Byte(i), y.Byte(i)
		res = Or(Lt(a, b), And(Eq(a, b), res))
	}
	return res
}

func (in *Interp) strBinop(op token.Token, x, y *StrV) Value {
	switch op {
	case token.ADD:
		return in.strConcat(x, y)
	case token.EQL:
		return in.strEq(x, y)
	case token.NEQ:
		return Not(in.strEq(x, y))
	case token.LSS:
		return in.strLess(x, y, false)
	case token.LEQ:
		return in.strLess(x, y, true)
	case token.GTR:
		return in.strLess(y, x, false)
	case token.GEQ:
		return in.strLess(y, x, true)
	}
	in.unsupported("string binop " + op.String())
	return nil
}

func (in *Interp) strConcat(x, y *StrV) *StrV {
	if x.IsConc() && y.IsConc() {
		return ConcStr(x.Conc + y.Conc)
	}
	if x.Opaque || y.Opaque || x.Num != nil || y.Num != nil {
		if x.IsConc() && x.Conc == "" {
			return y
		}
		if y.IsConc() && y.Conc == "" {
			return x
		}
		return &StrV{Opaque: true}
	}
	bs := append(append([]*Term{}, x.Bytes()...), y.Bytes()...)
	return StrFromBytes(bs)
}

// ---- floats --------------------------------------------------------------------

func ratOfFloat(f float64) *big.Rat {
	r := new(big.Rat)
	r.SetFloat64(f)
	return r
}

func FloatFromGo(f float64, bits int) *FloatV {
	switch {
	case math.IsNaN(f):
		return &FloatV{Cls: FNaN, Bits: bits}
	case math.IsInf(f, 1):
		return &FloatV{Cls: FPosInf, Bits: bits}
	case math.IsInf(f, -1):
		return &FloatV{Cls: FNegInf, Bits: bits}
	}
	return &FloatV{Cls: FFinite, Val: RatC(ratOfFloat(f)), Bits: bits, NegZ: f == 0 && math.Signbit(f)}
}

// GoFloat returns the concrete float64 if the value is concrete.
func (f *FloatV) GoFloat() (float64, bool) {
	switch f.Cls {
	case FNaN:
		return math.NaN(), true
	case FPosInf:
		return math.Inf(1), true
	case FNegInf:
		return math.Inf(-1), true
	}
	r, ok := f.Val.RatVal()
	if !ok || f.Lossy {
		return 0, false
	}
	v, _ := r.Float64()
	if v == 0 && f.NegZ {
		v = math.Copysign(0, -1)
	}
	return v, true
}

// roundToBinary models rounding of an exact integral real to binary64 /
// binary32: an uninterpreted function that is the identity up to 2^53 (2^24).
// Non-integral symbolic reals stay exact (the harnesses' exact-float domain).
func (in *Interp) roundToBinary(v *Term, bits int) (*Term, bool) {
	k, ok := asInt(v)
	if !ok {
		return v, false
	}
	lim := pow2[53]
	name := "fl64"
	if bits == 32 {
		lim = pow2[24]
		name = "fl32"
	}
	lo, hi := in.ival(k)
	if lo != nil && hi != nil && new(big.Int).Abs(lo).Cmp(lim) <= 0 && new(big.Int).Abs(hi).Cmp(lim) <= 0 {
		return v, false
	}
	f := UF(name, SReal, v)
	in.bg = append(in.bg, Implies(And(Le(Neg(BigC(lim)), k), Le(k, BigC(lim))), Eq(f, v)))
	// rounding is monotone around the exact-range boundary and never moves a value by more than its ulp;
	// beyond 2^53 (2^24) every representable value is even
	in.bg = append(in.bg, Implies(Gt(k, BigC(lim)), And(Ge(f, ToReal(BigC(lim))), Le(Sub(f, v), RealOfInt(1<<10)), Le(Sub(v, f), RealOfInt(1<<10)))))
	in.bg = append(in.bg, Implies(Lt(k, Neg(BigC(lim))), And(Le(f, ToReal(Neg(BigC(lim)))), Le(Sub(f, v), RealOfInt(1<<10)), Le(Sub(v, f), RealOfInt(1<<10)))))
	return f, true
}

func (in *Interp) floatBinop(op token.Token, x, y *FloatV) Value {
	// concrete fast path: exact Go semantics
	if a, ok := x.GoFloat(); ok {
		if b, ok := y.GoFloat(); ok {
			switch op {
			case token.ADD, token.SUB, token.MUL, token.QUO:
				var r float64
				if x.Bits == 32 {
					fa, fb := float32(a), float32(b)
					switch op {
					case token.ADD:
						r = float64(fa + fb)
					case token.SUB:
						r = float64(fa - fb)
					case token.MUL:
						r = float64(fa * fb)
					case token.QUO:
						r = float64(fa / fb)
					}
				} else {
					switch op {
					case token.ADD:
						r = a + b
					case token.SUB:
						r = a - b
					case token.MUL:
						r = a * b
					case token.QUO:
						r = a / b
					}
				}
				return FloatFromGo(r, x.Bits)
			case token.EQL:
				return BoolC(a == b)
			case token.NEQ:
				return BoolC(a != b)
			case token.LSS:
				return BoolC(a < b)
			case token.LEQ:
				return BoolC(a <= b)
			case token.GTR:
				return BoolC(a > b)
			case token.GEQ:
				return BoolC(a >= b)
			}
		}
	}
	nan := x.Cls == FNaN || y.Cls == FNaN
	switch op {
	case token.EQL, token.NEQ, token.LSS, token.LEQ, token.GTR, token.GEQ:
		if nan {
			return BoolC(op == token.NEQ)
		}
		// order: -inf < finite < +inf
		rank := func(f *FloatV) int {
			switch f.Cls {
			case FNegInf:
				return -1
			case FPosInf:
				return 1
			}
			return 0
		}
		rx, ry := rank(x), rank(y)
		if rx != 0 || ry != 0 {
			var c int
			switch {
			case rx < ry:
				c = -1
			case rx > ry:
				c = 1
			}
			if rx == ry {
				c = 0
			}
			switch op {
			case token.EQL:
				return BoolC(c == 0)
			case token.NEQ:
				return BoolC(c != 0)
			case token.LSS:
				return BoolC(c < 0)
			case token.LEQ:
				return BoolC(c <= 0)
			case token.GTR:
				return BoolC(c > 0)
			case token.GEQ:
				return BoolC(c >= 0)
			}
		}
		switch op {
		case token.EQL:
			return Eq(x.Val, y.Val)
		case token.NEQ:
			return Not(Eq(x.Val, y.Val))
		case token.LSS:
			return Lt(x.Val, y.Val)
		case token.LEQ:
			return Le(x.Val, y.Val)
		case token.GTR:
			return Lt(y.Val, x.Val)
		case token.GEQ:
			return Le(y.Val, x.Val)
		}
	}
	// arithmetic with symbolic finite values: exact real arithmetic; the
	// harness states the exact-float domain as a bound. Results are marked
	// Lossy unless both operands are exact-domain values.
	if nan {
		return &FloatV{Cls: FNaN, Bits: x.Bits}
	}
	if x.Cls != FFinite || y.Cls != FFinite {
		return in.floatSpecialArith(op, x, y)
	}
	res := &FloatV{Cls: FFinite, Bits: x.Bits, Lossy: x.Lossy || y.Lossy}
	round := func(v *Term) *Term {
		r, rounded := in.roundToBinary(v, x.Bits)
		if rounded {
			res.Lossy = true
		}
		return r
	}
	switch op {
	case token.ADD:
		res.Val = round(Add(x.Val, y.Val))
	case token.SUB:
		res.Val = round(Sub(x.Val, y.Val))
	case token.MUL:
		res.Val = round(Mul(x.Val, y.Val))
	case token.QUO:
		k := in.decide("fdiv0", []*Term{Not(Eq(y.Val, RealOfInt(0))), And(Eq(y.Val, RealOfInt(0)), Eq(x.Val, RealOfInt(0))), And(Eq(y.Val, RealOfInt(0)), Gt(x.Val, RealOfInt(0))), And(Eq(y.Val, RealOfInt(0)), Lt(x.Val, RealOfInt(0)))})
		switch k {
		case 1:
			return &FloatV{Cls: FNaN, Bits: x.Bits}
		case 2:
			if y.NegZ {
				return &FloatV{Cls: FNegInf, Bits: x.Bits}
			}
			return &FloatV{Cls: FPosInf, Bits: x.Bits}
		case 3:
			if y.NegZ {
				return &FloatV{Cls: FPosInf, Bits: x.Bits}
			}
			return &FloatV{Cls: FNegInf, Bits: x.Bits}
		}
		res.Val = RDiv(x.Val, y.Val)
		res.Lossy = true
	default:
		in.unsupported("float binop " + op.String())
	}
	return res
}

func (in *Interp) floatSpecialArith(op token.Token, x, y *FloatV) Value {
	// at least one infinity, no NaN
	sgn := func(f *FloatV) *Term { // sign of value as Int term -1,0,1
		switch f.Cls {
		case FPosInf:
			return IntC(1)
		case FNegInf:
			return IntC(-1)
		}
		return Ite(Gt(f.Val, RealOfInt(0)), IntC(1), Ite(Lt(f.Val, RealOfInt(0)), IntC(-1), IntC(0)))
	}
	mkInf := func(pos bool) *FloatV {
		if pos {
			return &FloatV{Cls: FPosInf, Bits: x.Bits}
		}
		return &FloatV{Cls: FNegInf, Bits: x.Bits}
	}
	xi, yi := x.Cls != FFinite, y.Cls != FFinite
	switch op {
	case token.ADD, token.SUB:
		ys := y.Cls
		if op == token.SUB {
			if ys == FPosInf {
				ys = FNegInf
			} else if ys == FNegInf {
				ys = FPosInf
			}
		}
		if xi && yi {
			if x.Cls == ys {
				return mkInf(x.Cls == FPosInf)
			}
			return &FloatV{Cls: FNaN, Bits: x.Bits}
		}
		if xi {
			return mkInf(x.Cls == FPosInf)
		}
		return mkInf(ys == FPosInf)
	case token.MUL:
		s := Mul(sgn(x), sgn(y))
		k := in.decide("fmulinf", []*Term{Gt(s, IntC(0)), Lt(s, IntC(0)), Eq(s, IntC(0))})
		switch k {
		case 0:
			return mkInf(true)
		case 1:
			return mkInf(false)
		}
		return &FloatV{Cls: FNaN, Bits: x.Bits}
	case token.QUO:
		if xi && yi {
			return &FloatV{Cls: FNaN, Bits: x.Bits}
		}
		if yi {
			return &FloatV{Cls: FFinite, Val: RealOfInt(0), Bits: x.Bits}
		}
		// inf / finite
		neg := x.Cls == FNegInf
		if in.branch(Or(Lt(y.Val, RealOfInt(0)), And(Eq(y.Val, RealOfInt(0)), BoolC(y.NegZ)))) {
			neg = !neg
		}
		return mkInf(!neg)
	}
	in.unsupported("float special arith")
	return nil
}

// ---- conversions --------------------------------------------------------

func (in *Interp) convert(v Value, from, to types.Type) Value {
	fu, tu := from.Underlying(), to.Underlying()
	fb, fIsB := fu.(*types.Basic)
	tb, tIsB := tu.(*types.Basic)
	if fIsB && tIsB {
		switch {
		case fb.Info()&types.IsInteger != 0 && tb.Info()&types.IsInteger != 0:
			bits, signed, _ := intBits(to)
			return Wrap(v.(*Term), bits, signed)
		case fb.Info()&types.IsInteger != 0 && tb.Info()&types.IsFloat != 0:
			bits := 64
			if tb.Kind() == types.Float32 {
				bits = 32
			}
			t := v.(*Term)
			if c, ok := t.IntVal(); ok {
				f, _ := new(big.Float).SetInt(c).Float64()
				if bits == 32 {
					f = float64(float32(f))
				}
				return FloatFromGo(f, bits)
			}
			lim := pow2[53]
			if bits == 32 {
				lim = pow2[24]
			}
			_ = lim
			val, rounded := in.roundToBinary(ToReal(t), bits)
			return &FloatV{Cls: FFinite, Val: val, Bits: bits, Lossy: rounded}
		case fb.Info()&types.IsFloat != 0 && tb.Info()&types.IsInteger != 0:
			f := v.(*FloatV)
			bits, signed, _ := intBits(to)
			lo, hi := typeRange(bits, signed)
			minInt := BigC(new(big.Int).Neg(pow2[63]))
			if g, ok := f.GoFloat(); ok {
				if math.IsNaN(g) || math.IsInf(g, 0) {
					return Wrap(minInt, bits, signed)
				}
				bf := new(big.Float).SetFloat64(g)
				bi, _ := bf.Int(nil)
				if bi.Cmp(lo) < 0 || bi.Cmp(hi) > 0 {
					return Wrap(minInt, bits, signed) // amd64 behaviour
				}
				return BigC(bi)
			}
			if f.Cls != FFinite {
				return Wrap(minInt, bits, signed)
			}
			tr := Ite(Ge(f.Val, RealOfInt(0)), ToIntFloor(f.Val), Neg(ToIntFloor(Neg(f.Val))))
			return Ite(And(Ge(tr, BigC(lo)), Le(tr, BigC(hi))), tr, Wrap(minInt, bits, signed))
		case fb.Info()&types.IsFloat != 0 && tb.Info()&types.IsFloat != 0:
			f := v.(*FloatV)
			bits := 64
			if tb.Kind() == types.Float32 {
				bits = 32
			}
			if g, ok := f.GoFloat(); ok {
				if bits == 32 {
					g = float64(float32(g))
				}
				return FloatFromGo(g, bits)
			}
			n := *f
			n.Bits = bits
			if bits == 32 && f.Bits == 64 {
				n.Lossy = true
			}
			return &n
		case fb.Info()&types.IsString != 0 && tb.Info()&types.IsString != 0:
			return v
		case fb.Info()&types.IsInteger != 0 && tb.Info()&types.IsString != 0:
			// string(rune)
			return StrFromBytes(in.encodeRune(v.(*Term)))
		}
	}
	// string <-> []byte / []rune
	if fIsB && fb.Info()&types.IsString != 0 {
		if sl, ok := tu.(*types.Slice); ok {
			s := v.(*StrV)
			eb := sl.Elem().Underlying().(*types.Basic)
			if (s.Num != nil || s.Opaque) && eb.Kind() == types.Uint8 {
				return SliceV{Arr: &ArrayV{Abs: s, Org: in.org(), ET: sl.Elem()}}
			}
			in.needBytes(s, "conversion to slice")
			if eb.Kind() == types.Uint8 {
				arr := &ArrayV{Elems: make([]Value, s.Len()), Org: in.org(), ET: sl.Elem()}
				for i := range arr.Elems {
					arr.Elems[i] = s.Byte(i)
				}
				return SliceV{Arr: arr, Len: s.Len(), Cap: s.Len()}
			}
			if eb.Kind() == types.Int32 {
				var rs []Value
				pos := 0
				for pos < s.Len() {
					r, sz := in.decodeRune(s, pos)
					rs = append(rs, r)
					pos += sz
				}
				arr := &ArrayV{Elems: rs, Org: in.org(), ET: sl.Elem()}
				return SliceV{Arr: arr, Len: len(rs), Cap: len(rs)}
			}
		}
	}
	if sl, ok := fu.(*types.Slice); ok && tIsB && tb.Info()&types.IsString != 0 {
		s := v.(SliceV)
		eb := sl.Elem().Underlying().(*types.Basic)
		if s.Arr != nil && s.Arr.Abs != nil {
			return s.Arr.Abs
		}
		if eb.Kind() == types.Uint8 {
			bs := make([]*Term, s.Len)
			for i := 0; i < s.Len; i++ {
				bs[i] = s.Arr.Elems[s.Off+i].(*Term)
			}
			return StrFromBytes(bs)
		}
		if eb.Kind() == types.Int32 {
			var bs []*Term
			for i := 0; i < s.Len; i++ {
				bs = append(bs, in.encodeRune(s.Arr.Elems[s.Off+i].(*Term))...)
			}
			return StrFromBytes(bs)
		}
	}
	// pointer conversions (unsafe) etc.
	if _, ok := fu.(*types.Pointer); ok {
		return v
	}
	in.unsupported(fmt.Sprintf("convert %v -> %v", from, to))
	return nil
}

// ---- UTF-8 model -----------------------------------------------------------------

// decodeRune models utf8.DecodeRuneInString(s[pos:]).
func (in *Interp) decodeRune(s *StrV, pos int) (*Term, int) {
	in.needBytes(s, "utf8 decode")
	n := s.Len() - pos
	if n <= 0 {
		return IntC(utf8.RuneError), 0
	}
	if s.IsConc() {
		r, sz := utf8.DecodeRuneInString(s.Conc[pos:])
		return IntC(int64(r)), sz
	}
	b0 := s.Byte(pos)
	inR := func(b *Term, lo, hi int64) *Term { return And(Ge(b, IntC(lo)), Le(b, IntC(hi))) }
	alts := []*Term{Lt(b0, IntC(0x80))}
	v2, v3, v4 := False, False, False
	if n >= 2 {
		b1 := s.Byte(pos + 1)
		v2 = And(inR(b0, 0xC2, 0xDF), inR(b1, 0x80, 0xBF))
		if n >= 3 {
			b2 := s.Byte(pos + 2)
			c2 := inR(b2, 0x80, 0xBF)
			v3 = And(c2, Or(
				And(Eq(b0, IntC(0xE0)), inR(b1, 0xA0, 0xBF)),
				And(inR(b0, 0xE1, 0xEC), inR(b1, 0x80, 0xBF)),
				And(Eq(b0, IntC(0xED)), inR(b1, 0x80, 0x9F)),
				And(inR(b0, 0xEE, 0xEF), inR(b1, 0x80, 0xBF))))
			if n >= 4 {
				b3 := s.Byte(pos + 3)
				v4 = And(c2, inR(b3, 0x80, 0xBF), Or(
					And(Eq(b0, IntC(0xF0)), inR(b1, 0x90, 0xBF)),
					And(inR(b0, 0xF1, 0xF3), inR(b1, 0x80, 0xBF)),
					And(Eq(b0, IntC(0xF4)), inR(b1, 0x80, 0x8F))))
			}
		}
	}
	invalid := And(Ge(b0, IntC(0x80)), Not(v2), Not(v3), Not(v4))
	alts = append(alts, v2, v3, v4, invalid)
	switch in.decide("utf8", alts) {
	case 0:
		return b0, 1
	case 1:
		b1 := s.Byte(pos + 1)
		return Add(Mul(Sub(b0, IntC(0xC0)), IntC(64)), Sub(b1, IntC(0x80))), 2
	case 2:
		b1, b2 := s.Byte(pos+1), s.Byte(pos+2)
		return Add(Add(Mul(Sub(b0, IntC(0xE0)), IntC(4096)), Mul(Sub(b1, IntC(0x80)), IntC(64))), Sub(b2, IntC(0x80))), 3
	case 3:
		b1, b2, b3 := s.Byte(pos+1), s.Byte(pos+2), s.Byte(pos+3)
		return Add(Add(Add(Mul(Sub(b0, IntC(0xF0)), IntC(262144)), Mul(Sub(b1, IntC(0x80)), IntC(4096))), Mul(Sub(b2, IntC(0x80)), IntC(64))), Sub(b3, IntC(0x80))), 4
	}
	return IntC(utf8.RuneError), 1
}

// encodeRune models utf8.AppendRune / string(rune).
func (in *Interp) encodeRune(r *Term) []*Term {
	if v, ok := r.Int64Val(); ok {
		var buf [4]byte
		var n int
		if v < 0 || v > utf8.MaxRune {
			n = utf8.EncodeRune(buf[:], utf8.RuneError)
		} else {
			n = utf8.EncodeRune(buf[:], rune(v))
		}
		out := make([]*Term, n)
		for i := 0; i < n; i++ {
			out[i] = IntC(int64(buf[i]))
		}
		return out
	}
	if _, ok := r.IntVal(); ok {
		return []*Term{IntC(0xEF), IntC(0xBF), IntC(0xBD)}
	}
	sur := And(Ge(r, IntC(0xD800)), Le(r, IntC(0xDFFF)))
	alts := []*Term{
		And(Ge(r, IntC(0)), Lt(r, IntC(0x80))),
		And(Ge(r, IntC(0x80)), Lt(r, IntC(0x800))),
		And(Ge(r, IntC(0x800)), Lt(r, IntC(0x10000)), Not(sur)),
		And(Ge(r, IntC(0x10000)), Le(r, IntC(0x10FFFF))),
		Or(Lt(r, IntC(0)), Gt(r, IntC(0x10FFFF)), sur),
	}
	switch in.decide("utf8enc", alts) {
	case 0:
		return []*Term{r}
	case 1:
		return []*Term{Add(IntC(0xC0), EDiv(r, IntC(64))), Add(IntC(0x80), EMod(r, IntC(64)))}
	case 2:
		return []*Term{Add(IntC(0xE0), EDiv(r, IntC(4096))), Add(IntC(0x80), EMod(EDiv(r, IntC(64)), IntC(64))), Add(IntC(0x80), EMod(r, IntC(64)))}
	case 3:
		return []*Term{Add(IntC(0xF0), EDiv(r, IntC(262144))), Add(IntC(0x80), EMod(EDiv(r, IntC(4096)), IntC(64))), Add(IntC(0x80), EMod(EDiv(r, IntC(64)), IntC(64))), Add(IntC(0x80), EMod(r, IntC(64)))}
	}
	return []*Term{IntC(0xEF), IntC(0xBF), IntC(0xBD)}
}

// ---- indexing / slicing -------------------------------------------------------------

func (in *Interp) indexCheck(idx *Term, n int, what string) int {
	i, ok := in.concretize("index", idx, 0, n-1)
	if !ok {
		in.goPanic(fmt.Sprintf("runtime error: index out of range (%s, len %d)", what, n))
	}
	return i
}

func (in *Interp) indexValue(x Value, idx *Term) Value {
	switch v := x.(type) {
	case *StrV:
		in.needBytes(v, "index")
		i := in.indexCheck(idx, v.Len(), "string")
		return v.Byte(i)
	case *ArrayV:
		i := in.indexCheck(idx, len(v.Elems), "array")
		return copyValue(v.Elems[i])
	}
	in.unsupported(fmt.Sprintf("Index on %T", x))
	return nil
}

func (in *Interp) indexAddr(x Value, idx *Term) Value {
	switch v := x.(type) {
	case SliceV:
		i := in.indexCheck(idx, v.Len, "slice")
		return PtrV{ElemRef{v.Arr, v.Off + i}}
	case PtrV:
		if v.R == nil {
			in.goPanic("nil pointer dereference (index)")
		}
		a := v.R.Load().(*ArrayV)
		i := in.indexCheck(idx, len(a.Elems), "array")
		return PtrV{ElemRef{a, i}}
	}
	in.unsupported(fmt.Sprintf("IndexAddr on %T", x))
	return nil
}

func (in *Interp) sliceOp(fr *frame, x *ssa.Slice) Value {
	base := in.get(fr, x.X)
	var lo, hi, mx *Term
	if x.Low != nil {
		lo = in.get(fr, x.Low).(*Term)
	}
	if x.High != nil {
		hi = in.get(fr, x.High).(*Term)
	}
	if x.Max != nil {
		mx = in.get(fr, x.Max).(*Term)
	}
	var length, capacity int
	switch v := base.(type) {
	case *StrV:
		in.needBytes(v, "slice")
		length, capacity = v.Len(), v.Len()
	case SliceV:
		length, capacity = v.Len, v.Cap
	case PtrV:
		if v.R == nil {
			in.goPanic("nil pointer dereference (slice of array)")
		}
		a := v.R.Load().(*ArrayV)
		length, capacity = len(a.Elems), len(a.Elems)
	default:
		in.unsupported(fmt.Sprintf("Slice on %T", base))
	}
	l, h, m := 0, length, capacity
	fail := func() { in.goPanic("runtime error: slice bounds out of range") }
	_, isStr := base.(*StrV)
	if mx != nil {
		v, ok := in.concretize("slicemax", mx, 0, capacity)
		if !ok {
			fail()
		}
		m = v
	}
	if hi != nil {
		bound := m
		if isStr {
			bound = length
		}
		v, ok := in.concretize("slicehi", hi, 0, bound)
		if !ok {
			fail()
		}
		h = v
	}
	if lo != nil {
		v, ok := in.concretize("slicelo", lo, 0, h)
		if !ok {
			fail()
		}
		l = v
	}
	if l > h || h > m {
		fail()
	}
	switch v := base.(type) {
	case *StrV:
		return v.Slice(l, h)
	case SliceV:
		if v.Arr == nil {
			return SliceV{}
		}
		return SliceV{Arr: v.Arr, Off: v.Off + l, Len: h - l, Cap: m - l}
	case PtrV:
		a := v.R.Load().(*ArrayV)
		return SliceV{Arr: a, Off: l, Len: h - l, Cap: m - l}
	}
	return nil
}

func (in *Interp) allocLimit() int {
	if in.Cfg.MaxAlloc > 0 {
		return in.Cfg.MaxAlloc
	}
	return 64
}

func (in *Interp) makeSlice(t types.Type, ln, cp *Term) Value {
	lim := in.allocLimit()
	n, ok := in.concretize("makelen", ln, 0, lim)
	if !ok {
		// negative => panic; too large => cost event
		if in.branch(Lt(ln, IntC(0))) {
			in.goPanic("runtime error: makeslice: len out of range")
		}
		// a symbolic length that can exceed 2^48 can exhaust memory or panic
		model := in.bigModel()
		in.Events = append(in.Events, Event{Kind: "cost", Msg: fmt.Sprintf("make with length > %d (length not bounded by data sizes)", lim), Where: in.where(), Model: model, Stack: in.stackNames(), Extra: map[string]interface{}{"len": ln.String()}})
		in.end("alloc", "make too large")
	}
	c, ok := in.concretize("makecap", cp, n, lim*2)
	if !ok {
		if in.branch(Lt(cp, ln)) {
			in.goPanic("runtime error: makeslice: cap out of range")
		}
		in.Events = append(in.Events, Event{Kind: "cost", Msg: "make with huge capacity", Where: in.where(), Stack: in.stackNames(), Model: in.bigModel()})
		in.end("alloc", "make cap too large")
	}
	et := t.Underlying().(*types.Slice).Elem()
	arr := &ArrayV{Elems: make([]Value, c), Org: in.org(), ET: et}
	for i := range arr.Elems {
		arr.Elems[i] = zeroValue(et, in.org())
	}
	return SliceV{Arr: arr, Len: n, Cap: c}
}

func (in *Interp) appendOp(s SliceV, more Value, st types.Type) Value {
	var add []Value
	switch m := more.(type) {
	case SliceV:
		for i := 0; i < m.Len; i++ {
			add = append(add, copyValue(m.Arr.Elems[m.Off+i]))
		}
	case *StrV:
		in.needBytes(m, "append")
		for _, b := range m.Bytes() {
			add = append(add, b)
		}
	default:
		in.unsupported(fmt.Sprintf("append of %T", more))
	}
	if len(add) == 0 {
		return s
	}
	if s.Len+len(add) <= s.Cap && s.Arr != nil {
		for i, v := range add {
			in.store(ElemRef{s.Arr, s.Off + s.Len + i}, v)
		}
		return SliceV{Arr: s.Arr, Off: s.Off, Len: s.Len + len(add), Cap: s.Cap}
	}
	nl := s.Len + len(add)
	nc := nl
	if s.Cap*2 > nc {
		nc = s.Cap * 2
	}
	var et types.Type
	if sl, ok := st.Underlying().(*types.Slice); ok {
		et = sl.Elem()
	}
	arr := &ArrayV{Elems: make([]Value, nc), Org: in.org(), ET: et}
	for i := 0; i < s.Len; i++ {
		arr.Elems[i] = copyValue(s.Arr.Elems[s.Off+i])
	}
	for i, v := range add {
		arr.Elems[s.Len+i] = v
	}
	for i := nl; i < nc; i++ {
		if et != nil {
			arr.Elems[i] = zeroValue(et, in.org())
		}
	}
	return SliceV{Arr: arr, Len: nl, Cap: nc}
}

// ---- maps ---------------------------------------------------------------------

func (in *Interp) keyEq(a, b Value) *Term {
	return in.valueEqual(a, b)
}

// mapFind returns the index of key in m or -1, forking when undecided.
func (in *Interp) mapFind(m *MapV, key Value) int {
	if m == nil {
		return -1
	}
	for i, k := range m.Keys {
		eq := in.keyEq(k, key)
		if in.branch(eq) {
			return i
		}
	}
	return -1
}

func (in *Interp) lookup(x Value, key Value, commaOk bool, rt types.Type) Value {
	switch v := x.(type) {
	case *StrV:
		in.needBytes(v, "index")
		i := in.indexCheck(key.(*Term), v.Len(), "string")
		return v.Byte(i)
	case *MapV:
		idx := in.mapFind(v, key)
		var res Value
		if idx >= 0 {
			res = copyValue(v.Vals[idx])
		} else {
			var vt types.Type
			if commaOk {
				vt = rt.(*types.Tuple).At(0).Type()
			} else {
				vt = rt
			}
			res = zeroValue(vt, in.org())
		}
		if commaOk {
			return TupleV{res, BoolC(idx >= 0)}
		}
		return res
	}
	in.unsupported(fmt.Sprintf("Lookup on %T", x))
	return nil
}

func (in *Interp) mapUpdate(m *MapV, key, val Value) {
	if in.monitorOn && in.underTest > 0 && (m.Org == OrgDoc || (m.Org == OrgAST && in.parseDepth == 0) || m.Org == OrgGlobal) {
		in.Events = append(in.Events, Event{Kind: "sharedwrite", Msg: "map update on " + m.Org.String() + " map", Where: in.where(), Stack: in.stackNames()})
	}
	idx := in.mapFind(m, key)
	if idx >= 0 {
		m.Vals[idx] = val
		return
	}
	m.Keys = append(m.Keys, key)
	m.Vals = append(m.Vals, val)
}

// ---- range ------------------------------------------------------------------------

var perms = map[int][][]int{}

func permutations(n int) [][]int {
	if p, ok := perms[n]; ok {
		return p
	}
	var res [][]int
	var rec func(cur []int, used []bool)
	rec = func(cur []int, used []bool) {
		if len(cur) == n {
			res = append(res, append([]int{}, cur...))
			return
		}
		for i := 0; i < n; i++ {
			if !used[i] {
				used[i] = true
				rec(append(cur, i), used)
				used[i] = false
			}
		}
	}
	rec(nil, make([]bool, n))
	return res
}

func init() {
	for n := 0; n <= 4; n++ {
		perms[n] = permutations(n)
	}
}

func (in *Interp) makeRange(x Value) Value {
	switch v := x.(type) {
	case *MapV:
		it := &IterV{M: v}
		n := 0
		if v != nil {
			n = len(v.Keys)
		}
		it.Order = make([]int, n)
		for i := range it.Order {
			it.Order[i] = i
		}
		if in.spec.OrderForks && in.underTest > 0 && n >= 2 {
			if n <= 3 {
				ps := perms[n]
				it.Order = ps[in.choose("maporder", len(ps))]
			} else {
				// identity, reverse, rotation
				switch in.choose("maporder", 3) {
				case 1:
					for i := range it.Order {
						it.Order[i] = n - 1 - i
					}
				case 2:
					for i := range it.Order {
						it.Order[i] = (i + 1) % n
					}
				}
			}
		}
		return it
	case *StrV:
		in.needBytes(v, "range")
		return &IterV{S: v}
	}
	in.unsupported(fmt.Sprintf("Range on %T", x))
	return nil
}

func (in *Interp) next(it *IterV, isString bool, rt types.Type) Value {
	if isString {
		if it.Pos >= it.S.Len() {
			return TupleV{False, IntC(0), IntC(0)}
		}
		r, sz := in.decodeRune(it.S, it.Pos)
		p := it.Pos
		it.Pos += sz
		return TupleV{True, IntC(int64(p)), r}
	}
	tup := rt.(*types.Tuple)
	if it.I >= len(it.Order) {
		var k, v Value
		if tup.At(1).Type() != nil && !isInvalid(tup.At(1).Type()) {
			k = zeroValue(tup.At(1).Type(), in.org())
		}
		if tup.At(2).Type() != nil && !isInvalid(tup.At(2).Type()) {
			v = zeroValue(tup.At(2).Type(), in.org())
		}
		return TupleV{False, k, v}
	}
	idx := it.Order[it.I]
	it.I++
	if idx >= len(it.M.Keys) {
		in.unsupported("map mutated during iteration")
	}
	return TupleV{True, it.M.Keys[idx], copyValue(it.M.Vals[idx])}
}

func isInvalid(t types.Type) bool {
	b, ok := t.(*types.Basic)
	return ok && b.Kind() == types.Invalid
}
