package sym

import (
	"errors"
	"fmt"
	"go/types"
	"math/big"
	"strings"

	"golang.org/x/tools/go/ssa"
)

// Models of the synchronisation and buffering helpers a change to the library
// is likely to introduce: sync.Pool with reuse, sync/atomic (functions and
// typed values), sync.Map, errors.As, bytes.Buffer. The interpretation is
// single-threaded; what the models preserve is the *state* these helpers carry
// from one call of the library to the next (a pooled buffer handed out again,
// a value stored atomically and loaded by a later call), which is what makes a
// call depend on history. Writes to such state while the shared-write monitor
// is on are events like any other store to shared memory; the native replay
// (race detector, outcome comparison) decides whether they matter.

type syncState struct {
	pools   map[*StructV][]Value
	atomics map[*StructV]Value
	maps    map[*StructV]*syncMap
	bufs    map[*StructV][]*Term
}

type syncMap struct {
	keys, vals []Value
}

func (in *Interp) syncSt() *syncState {
	if in.sync == nil {
		in.sync = &syncState{pools: map[*StructV][]Value{}, atomics: map[*StructV]Value{}, maps: map[*StructV]*syncMap{}, bufs: map[*StructV][]*Term{}}
	}
	return in.sync
}

// reOriginDeep moves the objects reachable from v whose origin is `from` to
// origin `to`; it does not descend through objects of any other origin (a
// pooled buffer that refers to the caller's document does not change the
// document's origin).
func reOriginDeep(v Value, from, to Origin, seen map[interface{}]bool) {
	switch x := v.(type) {
	case *StructV:
		if seen[x] || x.Org != from {
			return
		}
		seen[x] = true
		x.Org = to
		for _, f := range x.Fields {
			reOriginDeep(f, from, to, seen)
		}
	case *ArrayV:
		if seen[x] || x.Org != from {
			return
		}
		seen[x] = true
		x.Org = to
		for _, f := range x.Elems {
			reOriginDeep(f, from, to, seen)
		}
	case SliceV:
		if x.Arr != nil {
			reOriginDeep(x.Arr, from, to, seen)
		}
	case *MapV:
		if x == nil || seen[x] || x.Org != from {
			return
		}
		seen[x] = true
		x.Org = to
		for _, e := range x.Vals {
			reOriginDeep(e, from, to, seen)
		}
	case PtrV:
		if x.R == nil {
			return
		}
		switch c := x.R.(type) {
		case *Cell:
			if seen[c] || c.Org != from {
				return
			}
			seen[c] = true
			c.Org = to
			reOriginDeep(c.V, from, to, seen)
		case FieldRef:
			reOriginDeep(c.S, from, to, seen)
		case ElemRef:
			reOriginDeep(c.A, from, to, seen)
		}
	case IfaceV:
		if x.T != nil {
			reOriginDeep(x.V, from, to, seen)
		}
	case TupleV:
		for _, e := range x {
			reOriginDeep(e, from, to, seen)
		}
	}
}

func recvStruct(in *Interp, v Value, what string) *StructV {
	p, ok := v.(PtrV)
	if !ok || p.R == nil {
		in.goPanic("nil pointer dereference (" + what + ")")
	}
	st, ok := p.R.Load().(*StructV)
	if !ok {
		in.unsupported(what + ": receiver is not a struct")
	}
	return st
}

// sharedTouch records a write to synchronised state that other calls can reach.
func (in *Interp) sharedTouch(st *StructV, what string) {
	if in.monitorOn && in.underTest > 0 && in.parseDepth == 0 && (st.Org == OrgGlobal || st.Org == OrgAST || st.Org == OrgDoc || st.Org == OrgPool) {
		in.Events = append(in.Events, Event{Kind: "sharedwrite", Msg: what + " on " + st.Org.String() + " object", Where: in.where(), Stack: in.stackNames()})
	}
}

func intBitsOf(t types.Type) (int, bool) {
	b, ok := t.Underlying().(*types.Basic)
	if !ok {
		return 64, true
	}
	switch b.Kind() {
	case types.Int32:
		return 32, true
	case types.Uint32:
		return 32, false
	case types.Int64, types.Int:
		return 64, true
	case types.Uint64, types.Uint, types.Uintptr:
		return 64, false
	}
	return 64, true
}

func registerSyncStubs(w *World) {
	S := w.Stubs

	// ---- sync.Pool: Get hands out a pooled object again, or a new one ----
	S["(*sync.Pool).Get"] = func(in *Interp, fn *ssa.Function, a []Value) Value {
		st := recvStruct(in, a[0], "sync.Pool")
		ss := in.syncSt()
		if l := ss.pools[st]; len(l) > 0 {
			// the runtime may have dropped the pooled objects: both outcomes are explored
			if in.choose("pool", 2) == 0 {
				x := l[len(l)-1]
				ss.pools[st] = l[:len(l)-1]
				reOriginDeep(x, OrgPool, OrgCall, map[interface{}]bool{})
				return x
			}
		}
		nf, _ := st.Fields[len(st.Fields)-1].(*FuncV)
		if nf == nil {
			return NilIface
		}
		return in.callFuncV(nf, nil)
	}
	S["(*sync.Pool).Put"] = func(in *Interp, fn *ssa.Function, a []Value) Value {
		st := recvStruct(in, a[0], "sync.Pool")
		x := in.force(a[1])
		if x.T == nil {
			return nil
		}
		ss := in.syncSt()
		if xp, ok := x.V.(PtrV); ok && xp.R != nil {
			for _, y := range ss.pools[st] {
				if yp, ok := y.(IfaceV).V.(PtrV); ok && yp.R == xp.R {
					// two later Gets (possibly on different goroutines) would receive the same object
					if in.monitorOn {
						in.Events = append(in.Events, Event{Kind: "sharedwrite", Msg: "object released to a sync.Pool twice: two later users share it", Where: in.where(), Stack: in.stackNames()})
					}
				}
			}
		}
		// from now on the object belongs to whoever gets it next: a later store
		// through a retained reference is a write to shared state
		reOriginDeep(x, OrgCall, OrgPool, map[interface{}]bool{})
		ss.pools[st] = append(ss.pools[st], x)
		return nil
	}

	// ---- sync/atomic functions on plain words ----
	for _, ty := range []string{"Int32", "Int64", "Uint32", "Uint64", "Uintptr", "Pointer"} {
		ty := ty
		S["sync/atomic.Load"+ty] = func(in *Interp, fn *ssa.Function, a []Value) Value {
			p := a[0].(PtrV)
			if p.R == nil {
				in.goPanic("nil pointer dereference (atomic.Load)")
			}
			return p.R.Load()
		}
		S["sync/atomic.Store"+ty] = func(in *Interp, fn *ssa.Function, a []Value) Value {
			p := a[0].(PtrV)
			if p.R == nil {
				in.goPanic("nil pointer dereference (atomic.Store)")
			}
			in.store(p.R, a[1])
			return nil
		}
		S["sync/atomic.Swap"+ty] = func(in *Interp, fn *ssa.Function, a []Value) Value {
			p := a[0].(PtrV)
			if p.R == nil {
				in.goPanic("nil pointer dereference (atomic.Swap)")
			}
			old := p.R.Load()
			in.store(p.R, a[1])
			return old
		}
		S["sync/atomic.CompareAndSwap"+ty] = func(in *Interp, fn *ssa.Function, a []Value) Value {
			p := a[0].(PtrV)
			if p.R == nil {
				in.goPanic("nil pointer dereference (atomic.CompareAndSwap)")
			}
			if in.branch(in.valueEqual(p.R.Load(), a[1])) {
				in.store(p.R, a[2])
				return True
			}
			return False
		}
		if ty != "Pointer" {
			S["sync/atomic.Add"+ty] = func(in *Interp, fn *ssa.Function, a []Value) Value {
				p := a[0].(PtrV)
				if p.R == nil {
					in.goPanic("nil pointer dereference (atomic.Add)")
				}
				bits, signed := intBitsOf(fn.Signature.Results().At(0).Type())
				nv := in.wrap(Add(p.R.Load().(*Term), a[1].(*Term)), bits, signed)
				in.store(p.R, nv)
				return nv
			}
		}
	}

	// ---- typed atomics: the value lives in an engine-side shadow of the object ----
	atomicLoad := func(in *Interp, fn *ssa.Function, a []Value) Value {
		st := recvStruct(in, a[0], "atomic value")
		if v, ok := in.syncSt().atomics[st]; ok {
			return v
		}
		return zeroValue(fn.Signature.Results().At(0).Type(), in.org())
	}
	atomicStore := func(in *Interp, fn *ssa.Function, a []Value) Value {
		st := recvStruct(in, a[0], "atomic value")
		in.sharedTouch(st, "atomic store")
		in.syncSt().atomics[st] = a[1]
		return nil
	}
	atomicSwap := func(in *Interp, fn *ssa.Function, a []Value) Value {
		old := atomicLoad(in, fn, a)
		atomicStore(in, fn, a)
		return old
	}
	atomicCAS := func(in *Interp, fn *ssa.Function, a []Value) Value {
		st := recvStruct(in, a[0], "atomic value")
		cur, ok := in.syncSt().atomics[st]
		if !ok {
			cur = zeroValue(fn.Signature.Params().At(0).Type(), in.org())
		}
		var eq *Term
		if _, isIface := fn.Signature.Params().At(0).Type().Underlying().(*types.Interface); isIface {
			eq = in.ifaceEqual(cur, a[1])
		} else {
			eq = in.valueEqual(cur, a[1])
		}
		if in.branch(eq) {
			in.sharedTouch(st, "atomic compare-and-swap")
			in.syncSt().atomics[st] = a[2]
			return True
		}
		return False
	}
	atomicAdd := func(in *Interp, fn *ssa.Function, a []Value) Value {
		st := recvStruct(in, a[0], "atomic value")
		cur, ok := in.syncSt().atomics[st].(*Term)
		if !ok {
			cur = IntC(0)
		}
		bits, signed := intBitsOf(fn.Signature.Results().At(0).Type())
		nv := in.wrap(Add(cur, a[1].(*Term)), bits, signed)
		in.sharedTouch(st, "atomic add")
		in.syncSt().atomics[st] = nv
		return nv
	}
	for _, ty := range []string{"Int32", "Int64", "Uint32", "Uint64", "Uintptr", "Bool", "Value"} {
		r := "(*sync/atomic." + ty + ")."
		S[r+"Load"] = atomicLoad
		S[r+"Store"] = atomicStore
		S[r+"Swap"] = atomicSwap
		S[r+"CompareAndSwap"] = atomicCAS
		if ty != "Bool" && ty != "Value" {
			S[r+"Add"] = atomicAdd
		}
	}
	// atomic.Pointer[T] is generic: instances are looked up through their origin
	S["(*sync/atomic.Pointer[T]).Load"] = atomicLoad
	S["(*sync/atomic.Pointer[T]).Store"] = atomicStore
	S["(*sync/atomic.Pointer[T]).Swap"] = atomicSwap
	S["(*sync/atomic.Pointer[T]).CompareAndSwap"] = atomicCAS

	// ---- sync.Map ----
	smFind := func(in *Interp, m *syncMap, k Value) int {
		for i := range m.keys {
			if in.branch(in.ifaceEqual(m.keys[i], k)) {
				return i
			}
		}
		return -1
	}
	smOf := func(in *Interp, recv Value) (*StructV, *syncMap) {
		st := recvStruct(in, recv, "sync.Map")
		ss := in.syncSt()
		m := ss.maps[st]
		if m == nil {
			m = &syncMap{}
			ss.maps[st] = m
		}
		return st, m
	}
	S["(*sync.Map).Load"] = func(in *Interp, fn *ssa.Function, a []Value) Value {
		_, m := smOf(in, a[0])
		if i := smFind(in, m, a[1]); i >= 0 {
			return TupleV{m.vals[i], True}
		}
		return TupleV{NilIface, False}
	}
	S["(*sync.Map).Store"] = func(in *Interp, fn *ssa.Function, a []Value) Value {
		st, m := smOf(in, a[0])
		in.sharedTouch(st, "sync.Map store")
		if i := smFind(in, m, a[1]); i >= 0 {
			m.vals[i] = a[2]
			return nil
		}
		m.keys = append(m.keys, a[1])
		m.vals = append(m.vals, a[2])
		return nil
	}
	S["(*sync.Map).LoadOrStore"] = func(in *Interp, fn *ssa.Function, a []Value) Value {
		st, m := smOf(in, a[0])
		if i := smFind(in, m, a[1]); i >= 0 {
			return TupleV{m.vals[i], True}
		}
		in.sharedTouch(st, "sync.Map store")
		m.keys = append(m.keys, a[1])
		m.vals = append(m.vals, a[2])
		return TupleV{a[2], False}
	}
	S["(*sync.Map).Swap"] = func(in *Interp, fn *ssa.Function, a []Value) Value {
		st, m := smOf(in, a[0])
		in.sharedTouch(st, "sync.Map store")
		if i := smFind(in, m, a[1]); i >= 0 {
			old := m.vals[i]
			m.vals[i] = a[2]
			return TupleV{old, True}
		}
		m.keys = append(m.keys, a[1])
		m.vals = append(m.vals, a[2])
		return TupleV{NilIface, False}
	}
	smDelete := func(in *Interp, fn *ssa.Function, a []Value) (Value, bool) {
		st, m := smOf(in, a[0])
		if i := smFind(in, m, a[1]); i >= 0 {
			in.sharedTouch(st, "sync.Map delete")
			old := m.vals[i]
			m.keys = append(append([]Value{}, m.keys[:i]...), m.keys[i+1:]...)
			m.vals = append(append([]Value{}, m.vals[:i]...), m.vals[i+1:]...)
			return old, true
		}
		return NilIface, false
	}
	S["(*sync.Map).Delete"] = func(in *Interp, fn *ssa.Function, a []Value) Value {
		smDelete(in, fn, a)
		return nil
	}
	S["(*sync.Map).LoadAndDelete"] = func(in *Interp, fn *ssa.Function, a []Value) Value {
		v, ok := smDelete(in, fn, a)
		return TupleV{v, BoolC(ok)}
	}
	S["(*sync.Map).Clear"] = func(in *Interp, fn *ssa.Function, a []Value) Value {
		st, m := smOf(in, a[0])
		if len(m.keys) > 0 {
			in.sharedTouch(st, "sync.Map clear")
		}
		m.keys, m.vals = nil, nil
		return nil
	}
	S["(*sync.Map).Range"] = func(in *Interp, fn *ssa.Function, a []Value) Value {
		_, m := smOf(in, a[0])
		f, ok := a[1].(*FuncV)
		if !ok {
			in.unsupported("sync.Map.Range callback")
		}
		keys := append([]Value{}, m.keys...)
		vals := append([]Value{}, m.vals...)
		for i := range keys {
			r := in.callFuncV(f, []Value{keys[i], vals[i]})
			if t, ok := r.(*Term); ok && !in.branch(t) {
				break
			}
		}
		return nil
	}

	// ---- json.Encoder over an io.Writer: Marshal + newline, written with one Write ----
	S["encoding/json.NewEncoder"] = func(in *Interp, fn *ssa.Function, a []Value) Value {
		return PtrV{&Cell{V: &NativeV{Kind: "jsonenc", V: in.force(a[0])}, Org: in.org(), Nm: "json.Encoder"}}
	}
	for _, n := range []string{"SetEscapeHTML", "SetIndent"} {
		S["(*encoding/json.Encoder)."+n] = func(in *Interp, fn *ssa.Function, a []Value) Value { return nil }
	}
	S["(*encoding/json.Encoder).Encode"] = func(in *Interp, fn *ssa.Function, a []Value) Value {
		p, ok := a[0].(PtrV)
		if !ok || p.R == nil {
			in.goPanic("nil pointer dereference (json.Encoder)")
		}
		nv, ok := p.R.Load().(*NativeV)
		if !ok || nv.Kind != "jsonenc" {
			in.unsupported("json.Encoder not created by NewEncoder")
		}
		w := nv.V.(IfaceV)
		res := in.W.Stubs["encoding/json.Marshal"](in, fn, []Value{a[1]}).(TupleV)
		if e, _ := res[1].(IfaceV); e.T != nil {
			return res[1]
		}
		sl := res[0].(SliceV)
		if sl.Arr != nil && sl.Arr.Abs != nil {
			in.unsupported("json.Encoder.Encode of symbolic content")
		}
		bt := types.NewSlice(types.Typ[types.Uint8])
		out := in.appendOp(SliceV{}, sl, bt).(SliceV)
		out = in.appendOp(out, SliceV{Arr: &ArrayV{Elems: []Value{IntC('\n')}}, Len: 1, Cap: 1}, bt).(SliceV)
		if w.T == nil {
			in.goPanic("nil io.Writer")
		}
		m := in.findMethod(w.T, "Write")
		if m == nil {
			in.unsupported("json.Encoder: writer without Write method")
		}
		r := in.CallFunction(m, []Value{copyValue(w.V), out}, nil)
		if tv, ok := r.(TupleV); ok && len(tv) == 2 {
			return tv[1]
		}
		return NilIface
	}

	// strings are immutable values in the engine: a clone is the string itself
	for _, n := range []string{"strings.Clone", "internal/stringslite.Clone", "bytes.Clone"} {
		S[n] = func(in *Interp, fn *ssa.Function, a []Value) Value { return a[0] }
	}
	S["reflect.DeepEqual"] = func(in *Interp, fn *ssa.Function, a []Value) Value {
		return in.deepEqual(a[0], a[1], 0)
	}

	// ---- errors.As ----
	S["errors.As"] = func(in *Interp, fn *ssa.Function, a []Value) Value {
		err := in.force(a[0])
		target := in.force(a[1])
		if target.T == nil {
			in.goPanic("errors: target cannot be nil")
		}
		pt, ok := target.T.Underlying().(*types.Pointer)
		tp, isPtr := target.V.(PtrV)
		if !ok || !isPtr || tp.R == nil {
			in.goPanic("errors: target must be a non-nil pointer")
		}
		want := pt.Elem()
		wantIface, _ := want.Underlying().(*types.Interface)
		for depth := 0; depth < 16 && err.T != nil; depth++ {
			if en, ok := err.V.(*NativeV); ok {
				// a native chain: compare printed dynamic types
				ne, _ := en.V.(error)
				for d := 0; ne != nil && d < 16; d++ {
					if nativeTypeMatches(fmt.Sprintf("%T", ne), want) {
						if wantIface != nil {
							in.store(tp.R, in.nativeErr(ne))
						} else {
							in.store(tp.R, &NativeV{Kind: "error", V: ne})
						}
						return True
					}
					ne = errors.Unwrap(ne)
				}
				return False
			}
			if wantIface != nil {
				if in.implements(err.T, wantIface) {
					in.store(tp.R, err)
					return True
				}
			} else if types.Identical(err.T, want) {
				in.store(tp.R, copyValue(err.V))
				return True
			}
			if m := in.findMethod(err.T, "As"); m != nil && m.Signature.Params().Len() == 1 {
				if r, ok := in.CallFunction(m, []Value{copyValue(err.V), target}, nil).(*Term); ok && in.branch(r) {
					return True
				}
			}
			m := in.findMethod(err.T, "Unwrap")
			if m == nil || m.Signature.Results().Len() != 1 {
				return False
			}
			u := in.CallFunction(m, []Value{copyValue(err.V)}, nil)
			if _, isSlice := u.(SliceV); isSlice {
				in.unsupported("errors.As over Unwrap() []error")
			}
			err = in.force(u)
		}
		return False
	}

	// ---- bytes.Buffer (contents kept engine-side, like strings.Builder) ----
	bufOf := func(in *Interp, recv Value) *StructV { return recvStruct(in, recv, "bytes.Buffer") }
	bufAppend := func(in *Interp, st *StructV, bs []*Term) {
		ss := in.syncSt()
		cur := ss.bufs[st]
		if lim := in.allocLimit() * 4; len(cur)+len(bs) > lim {
			_, model := in.query()
			in.Events = append(in.Events, Event{Kind: "cost", Msg: fmt.Sprintf("bytes.Buffer grows beyond %d bytes (result size not bounded by the harness bounds)", lim), Where: in.where(), Model: model, Stack: in.stackNames()})
			in.end("alloc", "buffer too large")
		}
		if st.Org != OrgCall && st.Org != OrgHarness {
			in.sharedTouch(st, "bytes.Buffer write")
		}
		ss.bufs[st] = append(append([]*Term{}, cur...), bs...)
	}
	S["(*bytes.Buffer).WriteByte"] = func(in *Interp, fn *ssa.Function, a []Value) Value {
		bufAppend(in, bufOf(in, a[0]), []*Term{a[1].(*Term)})
		return NilIface
	}
	S["(*bytes.Buffer).WriteRune"] = func(in *Interp, fn *ssa.Function, a []Value) Value {
		bs := in.encodeRune(a[1].(*Term))
		bufAppend(in, bufOf(in, a[0]), bs)
		return TupleV{IntC(int64(len(bs))), NilIface}
	}
	S["(*bytes.Buffer).WriteString"] = func(in *Interp, fn *ssa.Function, a []Value) Value {
		s := a[1].(*StrV)
		in.needBytes(s, "Buffer.WriteString")
		bufAppend(in, bufOf(in, a[0]), s.Bytes())
		return TupleV{IntC(int64(s.Len())), NilIface}
	}
	S["(*bytes.Buffer).Write"] = func(in *Interp, fn *ssa.Function, a []Value) Value {
		sl := a[1].(SliceV)
		if sl.Arr != nil && sl.Arr.Abs != nil {
			in.unsupported("bytes.Buffer.Write of abstract text")
		}
		bs := make([]*Term, sl.Len)
		for i := 0; i < sl.Len; i++ {
			t, ok := sl.Arr.Elems[sl.Off+i].(*Term)
			if !ok {
				in.unsupported("bytes.Buffer.Write of non-byte elements")
			}
			bs[i] = t
		}
		bufAppend(in, bufOf(in, a[0]), bs)
		return TupleV{IntC(int64(sl.Len)), NilIface}
	}
	S["(*bytes.Buffer).String"] = func(in *Interp, fn *ssa.Function, a []Value) Value {
		p, ok := a[0].(PtrV)
		if !ok || p.R == nil {
			return ConcStr("<nil>")
		}
		return StrFromBytes(append([]*Term{}, in.syncSt().bufs[bufOf(in, a[0])]...))
	}
	S["(*bytes.Buffer).Len"] = func(in *Interp, fn *ssa.Function, a []Value) Value {
		return IntC(int64(len(in.syncSt().bufs[bufOf(in, a[0])])))
	}
	S["(*bytes.Buffer).Cap"] = func(in *Interp, fn *ssa.Function, a []Value) Value {
		n := len(in.syncSt().bufs[bufOf(in, a[0])])
		if n < 64 {
			n = 64
		}
		return IntC(int64(n))
	}
	S["(*bytes.Buffer).Reset"] = func(in *Interp, fn *ssa.Function, a []Value) Value {
		st := bufOf(in, a[0])
		if st.Org != OrgCall && st.Org != OrgHarness {
			in.sharedTouch(st, "bytes.Buffer reset")
		}
		in.syncSt().bufs[st] = nil
		return nil
	}
	S["(*bytes.Buffer).Grow"] = func(in *Interp, fn *ssa.Function, a []Value) Value {
		n := a[1].(*Term)
		if in.branch(Lt(n, IntC(0))) {
			in.goPanic("bytes.Buffer.Grow: negative count")
		}
		lim := in.allocLimit()
		if !in.branch(Le(n, IntC(int64(lim)))) {
			model := in.bigModel()
			in.Events = append(in.Events, Event{Kind: "cost", Msg: fmt.Sprintf("bytes.Buffer.Grow with size > %d (not bounded by data sizes)", lim), Where: in.where(), Model: model, Stack: in.stackNames()})
			in.end("alloc", "Grow too large")
		}
		return nil
	}
	S["(*bytes.Buffer).Truncate"] = func(in *Interp, fn *ssa.Function, a []Value) Value {
		st := bufOf(in, a[0])
		cur := in.syncSt().bufs[st]
		n, ok := in.concretize("truncate", a[1].(*Term), -1, len(cur)+1)
		if !ok || n < 0 || n > len(cur) {
			in.goPanic("bytes.Buffer: truncation out of range")
		}
		in.syncSt().bufs[st] = append([]*Term{}, cur[:n]...)
		return nil
	}
	S["(*bytes.Buffer).Bytes"] = func(in *Interp, fn *ssa.Function, a []Value) Value {
		cur := in.syncSt().bufs[bufOf(in, a[0])]
		vals := make([]Value, len(cur))
		for i, b := range cur {
			vals[i] = b
		}
		return SliceV{Arr: &ArrayV{Elems: vals, Org: in.org(), ET: types.Typ[types.Uint8]}, Len: len(vals), Cap: len(vals)}
	}
}

// deepEqual models reflect.DeepEqual on the value shapes the library handles
// (interfaces holding scalars, strings, []any, map[string]any, pointers).
func (in *Interp) deepEqual(a, b Value, depth int) *Term {
	if depth > 12 {
		in.unsupported("reflect.DeepEqual: nesting too deep")
	}
	if la, ok := a.(*LazyV); ok {
		a = in.force(la)
	}
	if lb, ok := b.(*LazyV); ok {
		b = in.force(lb)
	}
	switch x := a.(type) {
	case IfaceV:
		y, ok := b.(IfaceV)
		if !ok {
			return False
		}
		if x.T == nil || y.T == nil {
			return BoolC(x.T == nil && y.T == nil)
		}
		if !types.Identical(x.T, y.T) {
			return False
		}
		return in.deepEqual(x.V, y.V, depth+1)
	case SliceV:
		y, ok := b.(SliceV)
		if !ok {
			return False
		}
		if (x.Arr == nil) != (y.Arr == nil) {
			return False // a nil slice and an empty slice are not deeply equal
		}
		if x.Len != y.Len {
			return False
		}
		if x.Arr != nil && (x.Arr.Abs != nil || y.Arr.Abs != nil) {
			in.unsupported("reflect.DeepEqual on abstract text")
		}
		r := True
		for i := 0; i < x.Len; i++ {
			r = And(r, in.deepEqual(x.Arr.Elems[x.Off+i], y.Arr.Elems[y.Off+i], depth+1))
		}
		return r
	case *MapV:
		y, ok := b.(*MapV)
		if !ok {
			return False
		}
		if (x == nil) != (y == nil) {
			return False
		}
		if x == nil {
			return True
		}
		in.forceDeep(x)
		in.forceDeep(y)
		if len(x.Keys) != len(y.Keys) {
			return False
		}
		r := True
		for i, k := range x.Keys {
			found := False
			for j, k2 := range y.Keys {
				found = Or(found, And(in.valueEqual(k, k2), in.deepEqual(x.Vals[i], y.Vals[j], depth+1)))
			}
			r = And(r, found)
		}
		return r
	case PtrV:
		y, ok := b.(PtrV)
		if !ok {
			return False
		}
		if x.R == nil || y.R == nil {
			return BoolC(x.R == nil && y.R == nil)
		}
		if x.R == y.R {
			return True
		}
		return in.deepEqual(x.R.Load(), y.R.Load(), depth+1)
	case *StructV:
		y, ok := b.(*StructV)
		if !ok || len(x.Fields) != len(y.Fields) {
			return False
		}
		r := True
		for i := range x.Fields {
			r = And(r, in.deepEqual(x.Fields[i], y.Fields[i], depth+1))
		}
		return r
	case *FloatV:
		y, ok := b.(*FloatV)
		if !ok {
			return False
		}
		if x.Cls == FNaN || y.Cls == FNaN {
			return False
		}
		return in.valueEqual(x, y)
	}
	return in.valueEqual(a, b)
}

// nativeTypeMatches compares a %T rendering ("*json.UnsupportedValueError")
// with a go/types type ("*encoding/json.UnsupportedValueError").
func nativeTypeMatches(printed string, want types.Type) bool {
	ws := types.TypeString(want, func(p *types.Package) string { return p.Name() })
	return ws == printed
}

var _ = big.NewInt
var _ = strings.Contains
