package sym

import (
	"encoding/hex"
	"fmt"
	"go/types"
	"math/big"
	"strings"
)

// Type tags for lazily typed interface values.
const (
	TNil = iota
	TBool
	TStr
	TJNum
	TArr
	TObj
	TInt
	TInt8
	TInt16
	TInt32
	TInt64
	TUint
	TUint8
	TUint16
	TUint32
	TUint64
	TF32
	TF64
	TDec
	TForeignStruct
	TForeignPtr
	TStrSlice
	TStrMap
	NumTags
)

var tagNames = [NumTags]string{"nil", "bool", "string", "json.Number", "[]any", "map[string]any", "int", "int8", "int16", "int32", "int64", "uint", "uint8", "uint16", "uint32", "uint64", "float32", "float64", "decimal", "foreignStruct", "foreignPtr", "[]string", "map[string]string"}

const (
	UJSON    = 1<<TNil | 1<<TBool | 1<<TStr | 1<<TJNum | 1<<TArr | 1<<TObj
	UScalars = 1<<TNil | 1<<TBool | 1<<TStr | 1<<TJNum
	UInts    = 1<<TInt | 1<<TInt8 | 1<<TInt16 | 1<<TInt32 | 1<<TInt64 | 1<<TUint | 1<<TUint8 | 1<<TUint16 | 1<<TUint32 | 1<<TUint64
	UFloats  = 1<<TF32 | 1<<TF64
	UNums    = 1<<TJNum | UInts | UFloats | 1<<TDec
	UForeign = 1<<TForeignStruct | 1<<TForeignPtr | 1<<TStrSlice | 1<<TStrMap
)

func (w *World) initTags() {
	b := func(k types.BasicKind) types.Type { return types.Typ[k] }
	w.TagTypes[TBool] = b(types.Bool)
	w.TagTypes[TStr] = b(types.String)
	w.TagTypes[TJNum] = w.TJNum
	w.TagTypes[TArr] = w.TAnySlice
	w.TagTypes[TObj] = w.TAnyMap
	w.TagTypes[TInt] = b(types.Int)
	w.TagTypes[TInt8] = b(types.Int8)
	w.TagTypes[TInt16] = b(types.Int16)
	w.TagTypes[TInt32] = b(types.Int32)
	w.TagTypes[TInt64] = b(types.Int64)
	w.TagTypes[TUint] = b(types.Uint)
	w.TagTypes[TUint8] = b(types.Uint8)
	w.TagTypes[TUint16] = b(types.Uint16)
	w.TagTypes[TUint32] = b(types.Uint32)
	w.TagTypes[TUint64] = b(types.Uint64)
	w.TagTypes[TF32] = b(types.Float32)
	w.TagTypes[TF64] = b(types.Float64)
	w.TagTypes[TDec] = w.TDec
	if ft := w.LookupType(RepoModule, "vrtForeign"); ft != nil {
		w.TagTypes[TForeignStruct] = ft
		w.TagTypes[TForeignPtr] = types.NewPointer(ft)
	}
	w.TagTypes[TStrSlice] = types.NewSlice(b(types.String))
	w.TagTypes[TStrMap] = types.NewMap(b(types.String), b(types.String))
}

// DocSpec bounds the shape of lazily materialised documents.
type DocSpec struct {
	A, O, S    int      // max array length, object members, string length (code points)
	ANested    int      // if > 0: max length of arrays below the root level
	Keys       []string // key alphabet for objects
	StrMode    int      // 0: ASCII bytes, 1: valid UTF-8 with symbolic widths, 2: arbitrary bytes, 3: from alphabet StrAlpha
	StrAlpha   []string // for StrMode 3: concrete candidate strings
	NumForms   int      // bitmask over NumForm (1<<NFInt ...), plus 1<<8 for scale-1 fractions
	NumLo      *big.Int
	NumHi      *big.Int
	OrderForks bool
	FloatCls   int // bitmask of FloatCls allowed for float leaves (default finite only)
	DecCls     int
	Spare      bool // arrays get cap = len+1 with a sentinel
	WidthCls   int  // for StrMode 1: bitmask of code point classes; 0 = first four
}

func defaultSpec() DocSpec {
	return DocSpec{A: 2, O: 2, S: 1, Keys: []string{"a", "b"}, NumForms: 1 << NFInt, NumLo: big.NewInt(-1 << 40), NumHi: big.NewInt(1 << 40), FloatCls: 1 << FFinite, DecCls: 1 << DFinite, Spare: true}
}

type LazyV struct {
	ID      int
	Name    string
	Poss    uint32
	Depth   int
	Res     *IfaceV
	ChildU  uint32
	Level   int // 0 for a root created by vrtDoc
	Touched bool
}

func (in *Interp) newLazy(name string, depth int, universe uint32, childU uint32) *LazyV {
	in.lazyN++
	if childU == 0 {
		childU = universe
	}
	return &LazyV{ID: in.lazyN, Name: name, Poss: universe, Depth: depth, ChildU: childU}
}

func popcount(x uint32) int {
	n := 0
	for x != 0 {
		x &= x - 1
		n++
	}
	return n
}

func lowestTag(x uint32) int {
	for i := 0; i < NumTags; i++ {
		if x&(1<<uint(i)) != 0 {
			return i
		}
	}
	return -1
}

func (in *Interp) lazyIsNil(l *LazyV) bool {
	l.Touched = true
	if l.Res != nil {
		return l.Res.T == nil
	}
	if l.Poss&(1<<TNil) == 0 {
		return false
	}
	if l.Poss == 1<<TNil {
		in.resolve(l, TNil)
		return true
	}
	if in.choose("lazynil", 2) == 0 {
		in.resolve(l, TNil)
		return true
	}
	l.Poss &^= 1 << TNil
	return false
}

// lazyAssert narrows l for a type assertion to `asserted`. Returns the
// resolved interface value if the assertion can succeed, or a zero IfaceV
// with l.Res == nil if it fails without full resolution.
func (in *Interp) lazyAssert(l *LazyV, asserted types.Type) IfaceV {
	l.Touched = true
	if l.Res != nil {
		return *l.Res
	}
	var match uint32
	for tag := 0; tag < NumTags; tag++ {
		if l.Poss&(1<<uint(tag)) == 0 || tag == TNil {
			continue
		}
		tt := in.W.TagTypes[tag]
		if tt != nil && in.typeMatches(tt, asserted) {
			match |= 1 << uint(tag)
		}
	}
	if match == 0 {
		return IfaceV{}
	}
	rest := l.Poss &^ match
	if rest != 0 {
		if in.choose("lazytype", 2) == 1 {
			l.Poss = rest
			if popcount(rest) == 1 && rest == 1<<TNil {
				in.resolve(l, TNil)
				return *l.Res
			}
			return IfaceV{}
		}
	}
	l.Poss = match
	if popcount(match) > 1 {
		tags := tagList(match)
		k := in.choose("lazytype", len(tags))
		in.resolve(l, tags[k])
	} else {
		in.resolve(l, lowestTag(match))
	}
	return *l.Res
}

func tagList(x uint32) []int {
	var out []int
	for i := 0; i < NumTags; i++ {
		if x&(1<<uint(i)) != 0 {
			out = append(out, i)
		}
	}
	return out
}

func (in *Interp) lazyForce(l *LazyV) IfaceV {
	if l.Res == nil {
		tags := tagList(l.Poss)
		if len(tags) == 0 {
			in.end("infeasible", "lazy value with empty type set")
		}
		in.resolve(l, tags[in.choose("lazytype", len(tags))])
	}
	return *l.Res
}

func (in *Interp) symString(name string, spec *DocSpec) *StrV {
	if spec.StrMode == 3 {
		k := in.choose("stralpha", len(spec.StrAlpha))
		return ConcStr(spec.StrAlpha[k])
	}
	n := in.choose("strlen", spec.S+1)
	return in.symStringN(name, n, spec.StrMode, spec.WidthCls)
}

func (in *Interp) symStringN(name string, n int, mode int, widthCls int) *StrV {
	if n == 0 {
		return ConcStr("")
	}
	var bs []*Term
	switch mode {
	case 0:
		for i := 0; i < n; i++ {
			bs = append(bs, in.freshIntR(fmt.Sprintf("%s_b%d", name, i), 0, 127))
		}
	case 2:
		for i := 0; i < n; i++ {
			bs = append(bs, in.freshIntR(fmt.Sprintf("%s_b%d", name, i), 0, 255))
		}
	case 1:
		// each code point: class fork so that byte ranges alone determine validity
		type cls struct{ lo, hi []int64 }
		all := []cls{
			{[]int64{0x00}, []int64{0x7F}},
			{[]int64{0xC2, 0x80}, []int64{0xDF, 0xBF}},
			{[]int64{0xE1, 0x80, 0x80}, []int64{0xEC, 0xBF, 0xBF}},
			{[]int64{0xF1, 0x80, 0x80, 0x80}, []int64{0xF3, 0xBF, 0xBF, 0xBF}},
			{[]int64{0xE0, 0xA0, 0x80}, []int64{0xE0, 0xBF, 0xBF}},
			{[]int64{0xED, 0x80, 0x80}, []int64{0xED, 0x9F, 0xBF}},
			{[]int64{0xEE, 0x80, 0x80}, []int64{0xEF, 0xBF, 0xBF}}, // includes U+FFFD
			{[]int64{0xF0, 0x90, 0x80, 0x80}, []int64{0xF0, 0xBF, 0xBF, 0xBF}},
			{[]int64{0xF4, 0x80, 0x80, 0x80}, []int64{0xF4, 0x8F, 0xBF, 0xBF}},
		}
		var classes []cls
		if widthCls == 0 {
			classes = all[:4]
		} else {
			for i, c := range all {
				if widthCls&(1<<uint(i)) != 0 {
					classes = append(classes, c)
				}
			}
		}
		for i := 0; i < n; i++ {
			c := classes[in.choose("cpclass", len(classes))]
			for j := range c.lo {
				bs = append(bs, in.freshIntR(fmt.Sprintf("%s_c%d_%d", name, i, j), c.lo[j], c.hi[j]))
			}
		}
	}
	return &StrV{Sym: bs}
}

func (in *Interp) resolve(l *LazyV, tag int) {
	spec := &in.spec
	nm := fmt.Sprintf("%s_%d", l.Name, l.ID)
	var iv IfaceV
	tt := in.W.TagTypes[tag]
	switch tag {
	case TNil:
		iv = IfaceV{}
	case TBool:
		iv = IfaceV{T: tt, V: in.freshBool(nm + "_b")}
	case TStr:
		iv = IfaceV{T: tt, V: in.symString(nm+"_s", spec)}
	case TJNum:
		iv = IfaceV{T: tt, V: in.symNumStr(nm+"_n", spec)}
	case TArr:
		maxLen := spec.A
		if l.Level >= 1 && spec.ANested > 0 {
			maxLen = spec.ANested
		}
		if l.Depth <= 0 {
			maxLen = 0
		}
		n := in.choose("arrlen", maxLen+1)
		c := n
		if spec.Spare {
			c = n + 1
		}
		arr := &ArrayV{Elems: make([]Value, c), Org: OrgDoc, ET: in.W.TAny}
		for i := 0; i < n; i++ {
			c := in.newLazy(fmt.Sprintf("%s_e%d", l.Name, i), l.Depth-1, l.ChildU, l.ChildU)
			c.Level = l.Level + 1
			arr.Elems[i] = c
		}
		if c > n {
			arr.Elems[n] = IfaceV{T: in.W.TString, V: ConcStr("<spare>")}
		}
		arr.Orig = append([]Value{}, arr.Elems...)
		iv = IfaceV{T: tt, V: SliceV{Arr: arr, Len: n, Cap: c}}
	case TObj:
		keys := spec.Keys
		if l.Depth <= 0 {
			keys = nil
		}
		// subsets of the key alphabet with at most O members
		var subsets [][]string
		for mask := 0; mask < 1<<uint(len(keys)); mask++ {
			var ks []string
			for i, k := range keys {
				if mask&(1<<uint(i)) != 0 {
					ks = append(ks, k)
				}
			}
			if len(ks) <= spec.O {
				subsets = append(subsets, ks)
			}
		}
		ks := subsets[in.choose("objkeys", len(subsets))]
		m := &MapV{Org: OrgDoc, KT: in.W.TString, VT: in.W.TAny, ID: l.ID}
		for _, k := range ks {
			m.Keys = append(m.Keys, ConcStr(k))
			c := in.newLazy(l.Name+"_"+k, l.Depth-1, l.ChildU, l.ChildU)
			c.Level = l.Level + 1
			m.Vals = append(m.Vals, c)
		}
		m.OrigKeys, m.OrigVals, m.HasOrig = append([]Value{}, m.Keys...), append([]Value{}, m.Vals...), true
		iv = IfaceV{T: tt, V: m}
	case TInt, TInt8, TInt16, TInt32, TInt64, TUint, TUint8, TUint16, TUint32, TUint64:
		bits, signed, _ := intBits(tt)
		lo, hi := typeRange(bits, signed)
		iv = IfaceV{T: tt, V: in.freshInt(nm+"_i", lo, hi)}
		in.numLeaves = append(in.numLeaves, iv.V.(*Term))
	case TF32, TF64:
		bits := 64
		if tag == TF32 {
			bits = 32
		}
		var cls []FloatCls
		for c := FFinite; c <= FNaN; c++ {
			if spec.FloatCls&(1<<c) != 0 {
				cls = append(cls, c)
			}
		}
		if len(cls) == 0 {
			cls = []FloatCls{FFinite}
		}
		c := cls[in.choose("floatcls", len(cls))]
		f := &FloatV{Cls: c, Bits: bits}
		if c == FFinite {
			// exact-float domain: integers (scaled by 1 or 1/4) within 2^22
			k := in.freshIntR(nm+"_fk", -(1 << 22), 1<<22)
			f.Val = ToReal(k)
		}
		iv = IfaceV{T: tt, V: f}
	case TDec:
		var cls []DecCls
		for c := DFinite; c <= DNaN; c++ {
			if spec.DecCls&(1<<c) != 0 {
				cls = append(cls, c)
			}
		}
		if len(cls) == 0 {
			cls = []DecCls{DFinite}
		}
		c := cls[in.choose("deccls", len(cls))]
		d := &DecV{Cls: c}
		if c == DFinite {
			sp := *spec
			sp.NumForms &^= 1 << NFBad
			nt := in.symNumText(nm+"_d", &sp)
			d.Val = numTextValue(nt)
		}
		iv = IfaceV{T: tt, V: d}
	case TForeignStruct:
		iv = IfaceV{T: tt, V: zeroValue(tt, OrgDoc)}
	case TForeignPtr:
		iv = IfaceV{T: tt, V: PtrV{&Cell{V: zeroValue(in.W.TagTypes[TForeignStruct], OrgDoc), Org: OrgDoc}}}
	case TStrSlice:
		arr := &ArrayV{Elems: []Value{ConcStr("x")}, Org: OrgDoc, ET: in.W.TString}
		iv = IfaceV{T: tt, V: SliceV{Arr: arr, Len: 1, Cap: 1}}
	case TStrMap:
		iv = IfaceV{T: tt, V: &MapV{Org: OrgDoc, KT: in.W.TString, VT: in.W.TString, Keys: []Value{ConcStr("k")}, Vals: []Value{ConcStr("v")}}}
	default:
		in.unsupported("resolve tag")
	}
	l.Poss = 1 << uint(tag)
	l.Res = &iv
}

func (in *Interp) symNumText(name string, spec *DocSpec) *NumText {
	type form struct {
		f     NumForm
		scale int
	}
	var forms []form
	if spec.NumForms&(1<<NFInt) != 0 {
		forms = append(forms, form{NFInt, 0})
	}
	if spec.NumForms&(1<<NFDot) != 0 {
		forms = append(forms, form{NFDot, 0})
	}
	if spec.NumForms&(1<<NFExp) != 0 {
		forms = append(forms, form{NFExp, 0})
	}
	if spec.NumForms&(1<<8) != 0 {
		forms = append(forms, form{NFDot, 1})
	}
	if spec.NumForms&(1<<NFBad) != 0 {
		forms = append(forms, form{NFBad, 0})
	}
	if len(forms) == 0 {
		forms = []form{{NFInt, 0}}
	}
	f := forms[in.choose("numform", len(forms))]
	nt := &NumText{Form: f.f, Scale: f.scale}
	if f.f != NFBad {
		nt.K = in.freshInt(name, spec.NumLo, spec.NumHi)
		in.numLeaves = append(in.numLeaves, nt.K)
		if f.scale > 0 {
			// a genuine fraction: K not divisible by 10 (otherwise another spelling)
		}
	}
	return nt
}

// badNumberTexts are json.Number contents that are not JSON numbers.
var badNumberTexts = []string{"", "abc", "NaN", "Inf", "-Infinity", "1_0", "0x10", "1e999999", "--1", " 1", "1.", ".5", "+1"}

// symNumStr returns a json.Number-like string: an abstract number text, or a
// concrete malformed text when the spec allows invalid numbers.
func (in *Interp) symNumStr(name string, spec *DocSpec) *StrV {
	nt := in.symNumText(name, spec)
	if nt.Form == NFBad {
		return ConcStr(badNumberTexts[in.choose("badnum", len(badNumberTexts))])
	}
	return &StrV{Num: nt}
}

func numTextValue(nt *NumText) *Term {
	v := ToReal(nt.K)
	if nt.Scale > 0 {
		d := new(big.Int).Exp(big.NewInt(10), big.NewInt(int64(nt.Scale)), nil)
		v = RDiv(v, RatC(new(big.Rat).SetInt(d)))
	}
	return v
}

// ---- concretisation for counterexamples ------------------------------------------

// Tree is the typed JSON form of a Go value used in counterexample files.
type Tree map[string]interface{}

func numTextString(nt *NumText, m map[string]*Term) string {
	if nt.Form == NFBad {
		return "abc"
	}
	kv := Eval(nt.K, m)
	k, _ := kv.IntVal()
	if k == nil {
		k = big.NewInt(0)
	}
	switch nt.Form {
	case NFInt:
		return k.String()
	case NFExp:
		if nt.Scale > 0 {
			return fmt.Sprintf("%se-%d", k.String(), nt.Scale)
		}
		return k.String() + "e0"
	}
	if nt.Scale == 0 {
		return k.String() + ".0"
	}
	neg := k.Sign() < 0
	abs := new(big.Int).Abs(k).String()
	for len(abs) <= nt.Scale {
		abs = "0" + abs
	}
	s := abs[:len(abs)-nt.Scale] + "." + abs[len(abs)-nt.Scale:]
	if neg {
		s = "-" + s
	}
	return s
}

func strConcrete(s *StrV, m map[string]*Term) []byte {
	if s.Num != nil {
		return []byte(numTextString(s.Num, m))
	}
	if s.Opaque {
		return []byte("<opaque>")
	}
	if s.Sym == nil {
		return []byte(s.Conc)
	}
	out := make([]byte, len(s.Sym))
	for i, b := range s.Sym {
		v, _ := Eval(b, m).Int64Val()
		out[i] = byte(v)
	}
	return out
}

func ratString(r *big.Rat) string {
	if r.IsInt() {
		return r.Num().String()
	}
	// exact decimal if denominator is 2^a5^b, else 40 digits
	d := new(big.Int).Set(r.Denom())
	for _, p := range []int64{2, 5} {
		bp := big.NewInt(p)
		for new(big.Int).Mod(d, bp).Sign() == 0 {
			d.Div(d, bp)
		}
	}
	if d.Cmp(big.NewInt(1)) == 0 {
		s := r.FloatString(60)
		s = strings.TrimRight(s, "0")
		return strings.TrimSuffix(s, ".")
	}
	return r.FloatString(40)
}

func (in *Interp) concretizeValue(v Value, t types.Type, m map[string]*Term) Tree {
	switch x := v.(type) {
	case *LazyV:
		if x.Res == nil {
			tags := tagList(x.Poss)
			// any member of the possible set is consistent with the path; prefer nil
			tag := tags[0]
			switch tag {
			case TNil:
				return Tree{"t": "null"}
			case TBool:
				return Tree{"t": "bool", "v": false}
			case TStr:
				return Tree{"t": "str", "x": ""}
			case TJNum:
				return Tree{"t": "jnum", "v": "0"}
			case TArr:
				return Tree{"t": "arr", "v": []Tree{}, "spare": in.spec.Spare}
			case TObj:
				return Tree{"t": "obj", "k": []string{}, "v": []Tree{}}
			case TF32, TF64:
				return Tree{"t": "float", "k": tagNames[tag], "v": "0"}
			case TDec:
				return Tree{"t": "dec", "v": "0"}
			case TForeignStruct, TForeignPtr, TStrSlice, TStrMap:
				return Tree{"t": "foreign", "k": tagNames[tag]}
			default:
				return Tree{"t": "int", "k": tagNames[tag], "v": "0"}
			}
		}
		return in.concretizeValue(*x.Res, nil, m)
	case IfaceV:
		if x.T == nil {
			return Tree{"t": "null"}
		}
		return in.concretizeValue(x.V, x.T, m)
	case *Term:
		e := Eval(x, m)
		if x.sort == SBool {
			b, _ := e.BoolVal()
			return Tree{"t": "bool", "v": b}
		}
		iv, _ := e.IntVal()
		k := "int"
		if t != nil {
			k = types.TypeString(t, nil)
		}
		if iv == nil {
			iv = big.NewInt(0)
		}
		return Tree{"t": "int", "k": k, "v": iv.String()}
	case *StrV:
		if t != nil && in.W.TJNum != nil && types.Identical(t, in.W.TJNum) {
			return Tree{"t": "jnum", "v": string(strConcrete(x, m))}
		}
		return Tree{"t": "str", "x": hex.EncodeToString(strConcrete(x, m))}
	case *FloatV:
		k := "float64"
		if x.Bits == 32 {
			k = "float32"
		}
		switch x.Cls {
		case FNaN:
			return Tree{"t": "float", "k": k, "v": "NaN"}
		case FPosInf:
			return Tree{"t": "float", "k": k, "v": "+Inf"}
		case FNegInf:
			return Tree{"t": "float", "k": k, "v": "-Inf"}
		}
		r, _ := Eval(x.Val, m).RatVal()
		if r == nil {
			r = new(big.Rat)
		}
		return Tree{"t": "float", "k": k, "v": ratString(r)}
	case *DecV:
		switch x.Cls {
		case DNaN:
			return Tree{"t": "dec", "v": "NaN"}
		case DPosInf:
			return Tree{"t": "dec", "v": "Inf"}
		case DNegInf:
			return Tree{"t": "dec", "v": "-Inf"}
		}
		r, _ := Eval(x.Val, m).RatVal()
		if r == nil {
			r = new(big.Rat)
		}
		return Tree{"t": "dec", "v": ratString(r)}
	case SliceV:
		if t != nil && types.Identical(t, in.W.TagTypes[TStrSlice]) {
			return Tree{"t": "foreign", "k": tagNames[TStrSlice]}
		}
		elems := make([]Tree, x.Len)
		src := x.Arr.Elems
		if x.Arr.Orig != nil && len(x.Arr.Orig) == len(x.Arr.Elems) {
			src = x.Arr.Orig
		}
		for i := 0; i < x.Len; i++ {
			elems[i] = in.concretizeValue(src[x.Off+i], nil, m)
		}
		return Tree{"t": "arr", "v": elems, "spare": x.Cap > x.Len}
	case *MapV:
		if t != nil && types.Identical(t, in.W.TagTypes[TStrMap]) {
			return Tree{"t": "foreign", "k": tagNames[TStrMap]}
		}
		var ks []string
		var vs []Tree
		if x != nil {
			keys, vals := x.Keys, x.Vals
			if x.HasOrig {
				keys, vals = x.OrigKeys, x.OrigVals
			}
			for i, k := range keys {
				ks = append(ks, string(strConcrete(k.(*StrV), m)))
				vs = append(vs, in.concretizeValue(vals[i], nil, m))
			}
		}
		if ks == nil {
			ks, vs = []string{}, []Tree{}
		}
		return Tree{"t": "obj", "k": ks, "v": vs}
	case *StructV:
		return Tree{"t": "foreign", "k": tagNames[TForeignStruct]}
	case PtrV:
		return Tree{"t": "foreign", "k": tagNames[TForeignPtr]}
	case nil:
		return Tree{"t": "null"}
	}
	return Tree{"t": "unknown", "go": fmt.Sprintf("%T", v)}
}
