package sym

import (
	"fmt"
	"go/types"
	"math/big"

	"golang.org/x/tools/go/ssa"
)

// Value is an interpreter value:
//
//	*Term      bool / integer scalars
//	*FloatV    float32/float64
//	*StrV      strings
//	*StructV   struct values (copied on load/store)
//	*ArrayV    array values (copied on load/store); also slice backing store
//	SliceV     slices
//	*MapV      maps (reference)
//	PtrV       pointers
//	IfaceV     interface values (resolved)
//	*LazyV     interface value with undecided dynamic type
//	*FuncV     function values / closures
//	TupleV     multi-value results
//	*NativeV   opaque native Go value (errors from stdlib, reflect types ...)
//	*DecV      decimal128.Decimal under the contract model
//	*IterV     range iterator
type Value interface{}

// Origin classifies heap objects for the shared-write monitor.
type Origin uint8

const (
	OrgCall Origin = iota
	OrgDoc
	OrgAST
	OrgGlobal
	OrgHarness
	OrgPool // handed to a sync.Pool: belongs to whichever call gets it next
)

func (o Origin) String() string {
	return [...]string{"call", "doc", "ast", "global", "harness", "pooled"}[o]
}

type FloatCls uint8

const (
	FFinite FloatCls = iota
	FPosInf
	FNegInf
	FNaN
)

// FloatV models a float: class is concrete on a path, finite value is a Real.
// Lossy marks values that went through a rounding the model does not track.
type FloatV struct {
	Cls   FloatCls
	Val   *Term // SReal, valid if finite
	Bits  int
	Lossy bool
	NegZ  bool
}

// NumText is an abstract JSON number text: value K / 10^Scale, spelled in
// one of a few forms.
type NumForm uint8

const (
	NFInt NumForm = iota // integer syntax, e.g. 12
	NFDot                // K.0  (Scale==0) or fractional digits (Scale>0)
	NFExp                // Ke0
	NFBad                // not a number at all (e.g. "abc")
)

type NumText struct {
	K     *Term // SInt
	Scale int   // value = K / 10^Scale
	Form  NumForm
}

// StrV is a string: concrete, a vector of symbolic bytes (concrete length),
// an abstract number text, or opaque (message text nobody should inspect).
type StrV struct {
	Conc   string
	Sym    []*Term // if non-nil, symbolic bytes
	Num    *NumText
	Opaque bool
}

func ConcStr(s string) *StrV { return &StrV{Conc: s} }

func (s *StrV) IsConc() bool { return s.Sym == nil && s.Num == nil && !s.Opaque }

func (s *StrV) Len() int {
	if s.Sym != nil {
		return len(s.Sym)
	}
	return len(s.Conc)
}

func (s *StrV) Byte(i int) *Term {
	if s.Sym != nil {
		return s.Sym[i]
	}
	return IntC(int64(s.Conc[i]))
}

func (s *StrV) Bytes() []*Term {
	if s.Sym != nil {
		return s.Sym
	}
	out := make([]*Term, len(s.Conc))
	for i := 0; i < len(s.Conc); i++ {
		out[i] = IntC(int64(s.Conc[i]))
	}
	return out
}

// StrFromBytes builds a string value, concrete if all bytes are.
func StrFromBytes(bs []*Term) *StrV {
	conc := make([]byte, len(bs))
	for i, b := range bs {
		v, ok := b.Int64Val()
		if !ok {
			cp := make([]*Term, len(bs))
			copy(cp, bs)
			return &StrV{Sym: cp}
		}
		conc[i] = byte(v)
	}
	return &StrV{Conc: string(conc)}
}

func (s *StrV) Slice(i, j int) *StrV {
	if s.Sym != nil {
		return StrFromBytes(s.Sym[i:j])
	}
	return &StrV{Conc: s.Conc[i:j]}
}

type StructV struct {
	T      types.Type
	Fields []Value
	Org    Origin
}

type ArrayV struct {
	Elems []Value
	Org   Origin
	ET    types.Type
	Orig  []Value // document arrays: the members as the caller supplied them (counterexamples describe the input, not what a faulty call left behind)
	Abs   *StrV   // non-nil: the bytes of an abstract string ([]byte(s) of a number text)
}

type SliceV struct {
	Arr           *ArrayV // nil for nil slice
	Off, Len, Cap int
}

type MapV struct {
	Keys               []Value
	Vals               []Value
	OrigKeys, OrigVals []Value // document objects as supplied (see ArrayV.Orig)
	HasOrig            bool
	Org                Origin
	KT                 types.Type
	VT                 types.Type
	// order hint for lazily materialised documents
	ID int
}

// Ref is an addressable location.
type Ref interface {
	Load() Value
	Store(Value)
	Origin() Origin
}

type Cell struct {
	V   Value
	Org Origin
	Nm  string
}

func (c *Cell) Load() Value    { return c.V }
func (c *Cell) Store(v Value)  { c.V = v }
func (c *Cell) Origin() Origin { return c.Org }

type FieldRef struct {
	S *StructV
	I int
}

func (r FieldRef) Load() Value    { return r.S.Fields[r.I] }
func (r FieldRef) Store(v Value)  { r.S.Fields[r.I] = v }
func (r FieldRef) Origin() Origin { return r.S.Org }

type ElemRef struct {
	A *ArrayV
	I int
}

func (r ElemRef) Load() Value    { return r.A.Elems[r.I] }
func (r ElemRef) Store(v Value)  { r.A.Elems[r.I] = v }
func (r ElemRef) Origin() Origin { return r.A.Org }

type PtrV struct {
	R Ref // nil => nil pointer
}

type IfaceV struct {
	T types.Type // nil => nil interface
	V Value
}

var NilIface = IfaceV{}

type FuncV struct {
	Fn       *ssa.Function
	Bindings []Value
	Builtin  string // for natively known funcs like unicode.IsSpace
}

type TupleV []Value

type NativeV struct {
	V    interface{}
	Kind string
}

type DecCls uint8

const (
	DFinite DecCls = iota
	DPosInf
	DNegInf
	DNaN
)

// DecV models decimal128.Decimal by contract: class + exact real value.
type DecV struct {
	Cls   DecCls
	Val   *Term // SReal
	NegZ  bool
	Lossy bool // derived from a binary float that was not exactly tracked
	// Exp is the exponent of the encoding when it is known (integers: 0, a
	// parsed text: minus its fractional digits, New: its argument; products
	// add, sums take the minimum); nil when unknown. Only Go's == on the
	// struct depends on it.
	Exp *int
}

type IterV struct {
	// map iteration
	M     *MapV
	Order []int
	// string iteration
	S   *StrV
	Pos int
	I   int
}

// copyValue implements Go value semantics for aggregates.
func copyValue(v Value) Value {
	switch x := v.(type) {
	case *StructV:
		n := &StructV{T: x.T, Fields: make([]Value, len(x.Fields)), Org: x.Org}
		for i, f := range x.Fields {
			n.Fields[i] = copyValue(f)
		}
		return n
	case *ArrayV:
		n := &ArrayV{Elems: make([]Value, len(x.Elems)), Org: x.Org, ET: x.ET}
		for i, f := range x.Elems {
			n.Elems[i] = copyValue(f)
		}
		return n
	}
	return v
}

func setOrigin(v Value, o Origin) {
	switch x := v.(type) {
	case *StructV:
		x.Org = o
		for _, f := range x.Fields {
			setOrigin(f, o)
		}
	case *ArrayV:
		x.Org = o
		for _, f := range x.Elems {
			setOrigin(f, o)
		}
	}
}

func isDecimalType(t types.Type) bool {
	n, ok := t.(*types.Named)
	if !ok {
		return false
	}
	o := n.Obj()
	return o.Name() == "Decimal" && o.Pkg() != nil && o.Pkg().Path() == "github.com/woodsbury/decimal128"
}

func isNamed(t types.Type, pkg, name string) bool {
	n, ok := t.(*types.Named)
	if !ok {
		return false
	}
	o := n.Obj()
	return o.Name() == name && o.Pkg() != nil && o.Pkg().Path() == pkg
}

func zeroValue(t types.Type, org Origin) Value {
	if isDecimalType(t) {
		return &DecV{Cls: DFinite, Val: RealOfInt(0)}
	}
	switch u := t.Underlying().(type) {
	case *types.Basic:
		switch {
		case u.Info()&types.IsBoolean != 0:
			return False
		case u.Info()&types.IsInteger != 0:
			return IntC(0)
		case u.Info()&types.IsFloat != 0:
			bits := 64
			if u.Kind() == types.Float32 {
				bits = 32
			}
			return &FloatV{Cls: FFinite, Val: RealOfInt(0), Bits: bits}
		case u.Info()&types.IsString != 0:
			return ConcStr("")
		case u.Kind() == types.UnsafePointer:
			return PtrV{}
		case u.Kind() == types.UntypedNil:
			return nil
		}
	case *types.Pointer:
		return PtrV{}
	case *types.Slice:
		return SliceV{}
	case *types.Map:
		return (*MapV)(nil)
	case *types.Signature:
		return (*FuncV)(nil)
	case *types.Interface:
		return NilIface
	case *types.Chan:
		return nil
	case *types.Struct:
		s := &StructV{T: t, Fields: make([]Value, u.NumFields()), Org: org}
		for i := 0; i < u.NumFields(); i++ {
			s.Fields[i] = zeroValue(u.Field(i).Type(), org)
		}
		return s
	case *types.Array:
		a := &ArrayV{Elems: make([]Value, u.Len()), Org: org, ET: u.Elem()}
		for i := range a.Elems {
			a.Elems[i] = zeroValue(u.Elem(), org)
		}
		return a
	case *types.Tuple:
		tv := make(TupleV, u.Len())
		for i := range tv {
			tv[i] = zeroValue(u.At(i).Type(), org)
		}
		return tv
	}
	panic(fmt.Sprintf("zeroValue: unsupported type %v", t))
}

func intBits(t types.Type) (bits int, signed bool, ok bool) {
	b, isB := t.Underlying().(*types.Basic)
	if !isB || b.Info()&types.IsInteger == 0 {
		return 0, false, false
	}
	switch b.Kind() {
	case types.Int8:
		return 8, true, true
	case types.Int16:
		return 16, true, true
	case types.Int32, types.UntypedRune:
		return 32, true, true
	case types.Int64, types.Int, types.UntypedInt:
		return 64, true, true
	case types.Uint8:
		return 8, false, true
	case types.Uint16:
		return 16, false, true
	case types.Uint32:
		return 32, false, true
	case types.Uint64, types.Uint, types.Uintptr:
		return 64, false, true
	}
	return 0, false, false
}

func typeRange(bits int, signed bool) (*big.Int, *big.Int) {
	if signed {
		return new(big.Int).Neg(pow2[bits-1]), new(big.Int).Sub(pow2[bits-1], big.NewInt(1))
	}
	return big.NewInt(0), new(big.Int).Sub(pow2[bits], big.NewInt(1))
}
