package sym

import (
	"fmt"
	"go/types"
	"os"
	"sort"
	"strings"

	"golang.org/x/tools/go/packages"
	"golang.org/x/tools/go/ssa"
	"golang.org/x/tools/go/ssa/ssautil"
)

const RepoModule = "github.com/woodsbury/jmespath"

// World is the immutable, shared part: the SSA program of /repo's working
// tree (plus overlay harness files), type handles and the stub table.
type World struct {
	Prog     *ssa.Program
	Pkgs     map[string]*ssa.Package
	Root     *ssa.Package
	Fset     interface{}
	Stubs    map[string]StubFn
	TypeErrs []string

	// frequently used types
	TAny      types.Type
	TAnySlice types.Type
	TAnyMap   types.Type
	TString   types.Type
	TBool     types.Type
	TJNum     types.Type
	TDec      types.Type
	TError    types.Type
	TagTypes  [NumTags]types.Type

	RepoDir string
}

// LoadWorld loads RepoDir/... with the given overlay (virtual path -> file
// content), type-checks and builds SSA with generics instantiated.
func LoadWorld(repoDir string, overlay map[string][]byte) (*World, error) {
	cfg := &packages.Config{
		Mode:    packages.LoadAllSyntax,
		Dir:     repoDir,
		Env:     append(os.Environ(), "GOFLAGS=-mod=mod", "GOPROXY=off"),
		Overlay: overlay,
	}
	pkgs, err := packages.Load(cfg, "./...")
	if err != nil {
		return nil, err
	}
	w := &World{Pkgs: map[string]*ssa.Package{}, RepoDir: repoDir}
	packages.Visit(pkgs, nil, func(p *packages.Package) {
		for _, e := range p.Errors {
			w.TypeErrs = append(w.TypeErrs, e.Error())
		}
	})
	if len(w.TypeErrs) > 0 {
		return w, fmt.Errorf("type errors: %s", strings.Join(w.TypeErrs, "; "))
	}
	prog, _ := ssautil.AllPackages(pkgs, ssa.InstantiateGenerics)
	prog.Build()
	w.Prog = prog
	for _, p := range prog.AllPackages() {
		w.Pkgs[p.Pkg.Path()] = p
	}
	w.Root = w.Pkgs[RepoModule]
	if w.Root == nil {
		return nil, fmt.Errorf("root package %s not found", RepoModule)
	}
	w.TAny = types.Universe.Lookup("any").Type()
	w.TAnySlice = types.NewSlice(w.TAny)
	w.TString = types.Typ[types.String]
	w.TBool = types.Typ[types.Bool]
	w.TAnyMap = types.NewMap(w.TString, w.TAny)
	w.TError = types.Universe.Lookup("error").Type()
	if p := w.Pkgs["encoding/json"]; p != nil {
		w.TJNum = p.Pkg.Scope().Lookup("Number").Type()
	}
	if p := w.Pkgs["github.com/woodsbury/decimal128"]; p != nil {
		w.TDec = p.Pkg.Scope().Lookup("Decimal").Type()
	}
	w.initTags()
	w.Stubs = map[string]StubFn{}
	registerStubs(w)
	registerVrt(w)
	return w, nil
}

// HarnessFuncs returns the names of root-package functions with the given
// prefix, sorted.
func (w *World) HarnessFuncs(prefix string) []string {
	var out []string
	for name, m := range w.Root.Members {
		if _, ok := m.(*ssa.Function); ok && strings.HasPrefix(name, prefix) {
			out = append(out, name)
		}
	}
	sort.Strings(out)
	return out
}

func (w *World) IsRepoPkg(p *ssa.Package) bool {
	return p != nil && strings.HasPrefix(p.Pkg.Path(), RepoModule)
}

func (w *World) LookupType(pkg, name string) types.Type {
	p := w.Pkgs[pkg]
	if p == nil {
		return nil
	}
	o := p.Pkg.Scope().Lookup(name)
	if o == nil {
		return nil
	}
	return o.Type()
}
