// Package sym is a symbolic executor for Go SSA (golang.org/x/tools/go/ssa)
// with an SMT back end. Terms are SMT Int/Real/Bool terms with eager
// simplification and a cheap interval domain for Int terms.
package sym

import (
	"fmt"
	"math/big"
	"strings"
)

type Sort uint8

const (
	SBool Sort = iota
	SInt
	SReal
)

func (s Sort) String() string {
	switch s {
	case SBool:
		return "Bool"
	case SInt:
		return "Int"
	}
	return "Real"
}

type Op uint8

const (
	OConst Op = iota
	OVar
	OAdd
	OSub
	OMul
	ONeg
	ODiv // SMT div (euclidean) on Int
	OMod // SMT mod on Int
	ORDiv
	OEq
	OLt
	OLe
	OAnd
	OOr
	ONot
	OIte
	OToReal
	OToInt // floor
	OUF
)

// Term is an immutable SMT term.
type Term struct {
	op   Op
	sort Sort
	args []*Term
	iv   *big.Int // OConst SInt
	rv   *big.Rat // OConst SReal
	bv   bool     // OConst SBool
	name string   // OVar, OUF
	// interval for Int terms; nil = unbounded on that side
	lo, hi *big.Int
	key    string
}

func (t *Term) Sort() Sort { return t.sort }

func (t *Term) IsConst() bool { return t.op == OConst }

// Const accessors
func (t *Term) BoolVal() (bool, bool) {
	if t.op == OConst && t.sort == SBool {
		return t.bv, true
	}
	return false, false
}

func (t *Term) IntVal() (*big.Int, bool) {
	if t.op == OConst && t.sort == SInt {
		return t.iv, true
	}
	return nil, false
}

func (t *Term) Int64Val() (int64, bool) {
	if t.op == OConst && t.sort == SInt && t.iv.IsInt64() {
		return t.iv.Int64(), true
	}
	return 0, false
}

func (t *Term) RatVal() (*big.Rat, bool) {
	if t.op == OConst && t.sort == SReal {
		return t.rv, true
	}
	return nil, false
}

var (
	True  = &Term{op: OConst, sort: SBool, bv: true, key: "true"}
	False = &Term{op: OConst, sort: SBool, bv: false, key: "false"}
)

var smallInts [1024 + 256]*Term

func init() {
	for i := range smallInts {
		v := big.NewInt(int64(i - 256))
		smallInts[i] = &Term{op: OConst, sort: SInt, iv: v, lo: v, hi: v, key: v.String()}
	}
}

func IntC(v int64) *Term {
	if v >= -256 && v < 1024 {
		return smallInts[v+256]
	}
	b := big.NewInt(v)
	return &Term{op: OConst, sort: SInt, iv: b, lo: b, hi: b, key: b.String()}
}

func BigC(v *big.Int) *Term {
	if v.IsInt64() {
		return IntC(v.Int64())
	}
	b := new(big.Int).Set(v)
	return &Term{op: OConst, sort: SInt, iv: b, lo: b, hi: b, key: b.String()}
}

func BoolC(b bool) *Term {
	if b {
		return True
	}
	return False
}

func RatC(r *big.Rat) *Term {
	rr := new(big.Rat).Set(r)
	return &Term{op: OConst, sort: SReal, rv: rr, key: "r" + rr.String()}
}

func RealOfInt(v int64) *Term { return RatC(new(big.Rat).SetInt64(v)) }

// Var creates a variable term. Range (lo,hi) may be nil.
func Var(name string, s Sort, lo, hi *big.Int) *Term {
	return &Term{op: OVar, sort: s, name: name, lo: lo, hi: hi, key: "$" + name}
}

func mk(op Op, s Sort, args ...*Term) *Term {
	t := &Term{op: op, sort: s, args: args}
	var sb strings.Builder
	sb.WriteByte('(')
	sb.WriteString(opNames[op])
	for _, a := range args {
		sb.WriteByte(' ')
		sb.WriteString(a.key)
	}
	sb.WriteByte(')')
	t.key = sb.String()
	return t
}

var opNames = map[Op]string{
	OAdd: "+", OSub: "-", OMul: "*", ONeg: "-", ODiv: "div", OMod: "mod", ORDiv: "/",
	OEq: "=", OLt: "<", OLe: "<=", OAnd: "and", OOr: "or", ONot: "not", OIte: "ite",
	OToReal: "to_real", OToInt: "to_int",
}

func same(a, b *Term) bool { return a == b || a.key == b.key }

func addB(a, b *big.Int) *big.Int {
	if a == nil || b == nil {
		return nil
	}
	return new(big.Int).Add(a, b)
}
func subB(a, b *big.Int) *big.Int {
	if a == nil || b == nil {
		return nil
	}
	return new(big.Int).Sub(a, b)
}
func negB(a *big.Int) *big.Int {
	if a == nil {
		return nil
	}
	return new(big.Int).Neg(a)
}

// asInt returns the Int term t such that a == to_real(t), if a has that shape.
func asInt(a *Term) (*Term, bool) {
	if a.op == OToReal {
		return a.args[0], true
	}
	if r, ok := a.RatVal(); ok && r.IsInt() {
		return BigC(r.Num()), true
	}
	return nil, false
}

func bothInt(a, b *Term) (*Term, *Term, bool) {
	if a.op != OToReal && b.op != OToReal {
		return nil, nil, false
	}
	x, ok1 := asInt(a)
	y, ok2 := asInt(b)
	return x, y, ok1 && ok2
}

func Add(a, b *Term) *Term {
	if x, y, ok := bothInt(a, b); ok && a.sort == SReal && b.sort == SReal {
		return ToReal(Add(x, y))
	}
	if a.sort == SReal {
		if x, ok := a.RatVal(); ok {
			if y, ok := b.RatVal(); ok {
				return RatC(new(big.Rat).Add(x, y))
			}
			if x.Sign() == 0 {
				return b
			}
		}
		if y, ok := b.RatVal(); ok && y.Sign() == 0 {
			return a
		}
		return mk(OAdd, SReal, a, b)
	}
	if x, ok := a.IntVal(); ok {
		if y, ok := b.IntVal(); ok {
			return BigC(new(big.Int).Add(x, y))
		}
		if x.Sign() == 0 {
			return b
		}
		return Add(b, a) // constants go last so that they fold
	}
	if y, ok := b.IntVal(); ok && y.Sign() == 0 {
		return a
	}
	// (x + c1) + c2 => x + (c1+c2)
	if y, ok := b.IntVal(); ok && a.op == OAdd {
		if c1, ok := a.args[1].IntVal(); ok {
			return Add(a.args[0], BigC(new(big.Int).Add(c1, y)))
		}
	}
	t := mk(OAdd, SInt, a, b)
	t.lo, t.hi = addB(a.lo, b.lo), addB(a.hi, b.hi)
	return t
}

func Sub(a, b *Term) *Term {
	if x, y, ok := bothInt(a, b); ok && a.sort == SReal && b.sort == SReal {
		return ToReal(Sub(x, y))
	}
	if a.sort == SReal {
		if x, ok := a.RatVal(); ok {
			if y, ok := b.RatVal(); ok {
				return RatC(new(big.Rat).Sub(x, y))
			}
		}
		if y, ok := b.RatVal(); ok && y.Sign() == 0 {
			return a
		}
		return mk(OSub, SReal, a, b)
	}
	if y, ok := b.IntVal(); ok {
		return Add(a, BigC(new(big.Int).Neg(y)))
	}
	if same(a, b) {
		return IntC(0)
	}
	t := mk(OSub, SInt, a, b)
	t.lo, t.hi = subB(a.lo, b.hi), subB(a.hi, b.lo)
	return t
}

func Neg(a *Term) *Term {
	if a.sort == SReal && a.op == OToReal {
		return ToReal(Neg(a.args[0]))
	}
	if a.sort == SReal {
		if x, ok := a.RatVal(); ok {
			return RatC(new(big.Rat).Neg(x))
		}
		return mk(ONeg, SReal, a)
	}
	if x, ok := a.IntVal(); ok {
		return BigC(new(big.Int).Neg(x))
	}
	t := mk(ONeg, SInt, a)
	t.lo, t.hi = negB(a.hi), negB(a.lo)
	return t
}

func Mul(a, b *Term) *Term {
	if x, y, ok := bothInt(a, b); ok && a.sort == SReal && b.sort == SReal {
		return ToReal(Mul(x, y))
	}
	if a.sort == SReal {
		if x, ok := a.RatVal(); ok {
			if y, ok := b.RatVal(); ok {
				return RatC(new(big.Rat).Mul(x, y))
			}
		}
		return mk(OMul, SReal, a, b)
	}
	if x, ok := a.IntVal(); ok {
		if y, ok := b.IntVal(); ok {
			return BigC(new(big.Int).Mul(x, y))
		}
		return Mul(b, a)
	}
	if y, ok := b.IntVal(); ok {
		if y.Sign() == 0 {
			return IntC(0)
		}
		if y.IsInt64() && y.Int64() == 1 {
			return a
		}
		t := mk(OMul, SInt, a, b)
		if a.lo != nil && a.hi != nil {
			p, q := new(big.Int).Mul(a.lo, y), new(big.Int).Mul(a.hi, y)
			if p.Cmp(q) > 0 {
				p, q = q, p
			}
			t.lo, t.hi = p, q
		}
		return t
	}
	t := mk(OMul, SInt, a, b)
	if a.lo != nil && a.hi != nil && b.lo != nil && b.hi != nil {
		var lo, hi *big.Int
		for _, x := range []*big.Int{a.lo, a.hi} {
			for _, y := range []*big.Int{b.lo, b.hi} {
				p := new(big.Int).Mul(x, y)
				if lo == nil || p.Cmp(lo) < 0 {
					lo = p
				}
				if hi == nil || p.Cmp(hi) > 0 {
					hi = p
				}
			}
		}
		t.lo, t.hi = lo, hi
	}
	return t
}

// addends flattens a sum into its terms.
func addends(t *Term, out []*Term) []*Term {
	if t.op == OAdd && t.sort == SInt {
		out = addends(t.args[0], out)
		return addends(t.args[1], out)
	}
	return append(out, t)
}

// splitMultiples splits sum a into (m, rest) with a = m*c + rest where m
// collects the addends that are syntactic multiples of c. ok=false if nothing
// could be pulled out.
func splitMultiples(a *Term, c *big.Int) (*Term, *Term, bool) {
	if a.op != OAdd {
		return nil, nil, false
	}
	var m, rest *Term
	pulled := false
	for _, t := range addends(a, nil) {
		var q *Term
		if v, ok := t.IntVal(); ok {
			if new(big.Int).Mod(v, c).Sign() == 0 {
				q = BigC(new(big.Int).Quo(v, c))
			}
		} else if t.op == OMul {
			if k, ok := t.args[1].IntVal(); ok && new(big.Int).Mod(k, c).Sign() == 0 {
				q = Mul(t.args[0], BigC(new(big.Int).Quo(k, c)))
			}
		}
		if q != nil {
			pulled = true
			if m == nil {
				m = q
			} else {
				m = Add(m, q)
			}
			continue
		}
		if rest == nil {
			rest = t
		} else {
			rest = Add(rest, t)
		}
	}
	if !pulled {
		return nil, nil, false
	}
	if rest == nil {
		rest = IntC(0)
	}
	if m == nil {
		m = IntC(0)
	}
	return m, rest, true
}

// EDiv is SMT-LIB div (euclidean); b must be non-zero (caller guards).
func EDiv(a, b *Term) *Term {
	if y, ok := b.IntVal(); ok && y.Sign() > 0 {
		// (m*c + rest) div c = m + rest div c
		if m, rest, ok := splitMultiples(a, y); ok {
			return Add(m, EDiv(rest, b))
		}
		// 0 <= a < c
		if a.lo != nil && a.hi != nil && a.lo.Sign() >= 0 && a.hi.Cmp(y) < 0 {
			return IntC(0)
		}
		// (x div c1) div c2 = x div (c1*c2)
		if a.op == ODiv {
			if c1, ok := a.args[1].IntVal(); ok && c1.Sign() > 0 {
				return EDiv(a.args[0], BigC(new(big.Int).Mul(c1, y)))
			}
		}
	}
	if x, ok := a.IntVal(); ok {
		if y, ok := b.IntVal(); ok && y.Sign() != 0 {
			q, m := new(big.Int), new(big.Int)
			q.DivMod(x, y, m) // Euclidean
			return BigC(q)
		}
	}
	if y, ok := b.IntVal(); ok && y.IsInt64() && y.Int64() == 1 {
		return a
	}
	t := mk(ODiv, SInt, a, b)
	if y, ok := b.IntVal(); ok && y.Sign() > 0 && a.lo != nil && a.hi != nil {
		q1, q2, m := new(big.Int), new(big.Int), new(big.Int)
		q1.DivMod(a.lo, y, m)
		q2.DivMod(a.hi, y, new(big.Int))
		t.lo, t.hi = q1, q2
	}
	return t
}

func EMod(a, b *Term) *Term {
	if y, ok := b.IntVal(); ok && y.Sign() > 0 && a.op == OAdd {
		if _, rest, ok := splitMultiples(a, y); ok {
			return EMod(rest, b)
		}
	}
	if x, ok := a.IntVal(); ok {
		if y, ok := b.IntVal(); ok && y.Sign() != 0 {
			q, m := new(big.Int), new(big.Int)
			q.DivMod(x, y, m)
			return BigC(m)
		}
	}
	if y, ok := b.IntVal(); ok && y.Sign() > 0 {
		// already within [0, y)
		if a.lo != nil && a.hi != nil && a.lo.Sign() >= 0 && a.hi.Cmp(y) < 0 {
			return a
		}
		t := mk(OMod, SInt, a, b)
		t.lo, t.hi = big.NewInt(0), new(big.Int).Sub(y, big.NewInt(1))
		return t
	}
	return mk(OMod, SInt, a, b)
}

func RDiv(a, b *Term) *Term {
	if x, ok := a.RatVal(); ok {
		if y, ok := b.RatVal(); ok && y.Sign() != 0 {
			return RatC(new(big.Rat).Quo(x, y))
		}
	}
	return mk(ORDiv, SReal, a, b)
}

func ToReal(a *Term) *Term {
	if a.sort == SReal {
		return a
	}
	if x, ok := a.IntVal(); ok {
		return RatC(new(big.Rat).SetInt(x))
	}
	return mk(OToReal, SReal, a)
}

// ToIntFloor is SMT to_int (floor).
func ToIntFloor(a *Term) *Term {
	if a.sort == SInt {
		return a
	}
	if x, ok := a.RatVal(); ok {
		q := new(big.Int)
		m := new(big.Int)
		q.DivMod(x.Num(), x.Denom(), m)
		return BigC(q)
	}
	if a.op == OToReal {
		return a.args[0]
	}
	return mk(OToInt, SInt, a)
}

func Eq(a, b *Term) *Term {
	if a.sort != b.sort {
		if a.sort == SInt && b.sort == SReal {
			a = ToReal(a)
		} else if a.sort == SReal && b.sort == SInt {
			b = ToReal(b)
		} else {
			panic(fmt.Sprintf("Eq sort mismatch %v %v", a, b))
		}
	}
	if same(a, b) {
		return True
	}
	switch a.sort {
	case SBool:
		if x, ok := a.BoolVal(); ok {
			if x {
				return b
			}
			return Not(b)
		}
		if y, ok := b.BoolVal(); ok {
			if y {
				return a
			}
			return Not(a)
		}
	case SInt:
		if x, ok := a.IntVal(); ok {
			if y, ok := b.IntVal(); ok {
				return BoolC(x.Cmp(y) == 0)
			}
		}
		// interval disjointness
		if a.hi != nil && b.lo != nil && a.hi.Cmp(b.lo) < 0 {
			return False
		}
		if b.hi != nil && a.lo != nil && b.hi.Cmp(a.lo) < 0 {
			return False
		}
		// (x + c) = d  =>  x = d-c
		if y, ok := b.IntVal(); ok && a.op == OAdd {
			if c, ok := a.args[1].IntVal(); ok {
				return Eq(a.args[0], BigC(new(big.Int).Sub(y, c)))
			}
		}
		// ite(c, k1, k2) = k  with constants
		if y, ok := b.IntVal(); ok && a.op == OIte {
			if k1, ok1 := a.args[1].IntVal(); ok1 {
				if k2, ok2 := a.args[2].IntVal(); ok2 {
					e1, e2 := k1.Cmp(y) == 0, k2.Cmp(y) == 0
					switch {
					case e1 && e2:
						return True
					case e1:
						return a.args[0]
					case e2:
						return Not(a.args[0])
					default:
						return False
					}
				}
			}
		}
	case SReal:
		if x, ok := a.RatVal(); ok {
			if y, ok := b.RatVal(); ok {
				return BoolC(x.Cmp(y) == 0)
			}
		}
		if x, y, ok := bothInt(a, b); ok {
			return Eq(x, y)
		}
		// to_real(k) = non-integral constant
		if a.op == OToReal {
			if r, ok := b.RatVal(); ok && !r.IsInt() {
				return False
			}
		}
		if b.op == OToReal {
			if r, ok := a.RatVal(); ok && !r.IsInt() {
				return False
			}
		}
	}
	return mk(OEq, SBool, a, b)
}

func coerce(a, b *Term) (*Term, *Term) {
	if a.sort == SInt && b.sort == SReal {
		return ToReal(a), b
	}
	if a.sort == SReal && b.sort == SInt {
		return a, ToReal(b)
	}
	return a, b
}

func Lt(a, b *Term) *Term {
	a, b = coerce(a, b)
	if x, y, ok := bothInt(a, b); ok && a.sort == SReal {
		return Lt(x, y)
	}
	if a.sort == SReal {
		if x, ok := a.RatVal(); ok {
			if y, ok := b.RatVal(); ok {
				return BoolC(x.Cmp(y) < 0)
			}
		}
		return mk(OLt, SBool, a, b)
	}
	if x, ok := a.IntVal(); ok {
		if y, ok := b.IntVal(); ok {
			return BoolC(x.Cmp(y) < 0)
		}
	}
	if same(a, b) {
		return False
	}
	if a.hi != nil && b.lo != nil && a.hi.Cmp(b.lo) < 0 {
		return True
	}
	if a.lo != nil && b.hi != nil && a.lo.Cmp(b.hi) >= 0 {
		return False
	}
	return mk(OLt, SBool, a, b)
}

func Le(a, b *Term) *Term {
	a, b = coerce(a, b)
	if x, y, ok := bothInt(a, b); ok && a.sort == SReal {
		return Le(x, y)
	}
	if a.sort == SReal {
		if x, ok := a.RatVal(); ok {
			if y, ok := b.RatVal(); ok {
				return BoolC(x.Cmp(y) <= 0)
			}
		}
		return mk(OLe, SBool, a, b)
	}
	if x, ok := a.IntVal(); ok {
		if y, ok := b.IntVal(); ok {
			return BoolC(x.Cmp(y) <= 0)
		}
	}
	if same(a, b) {
		return True
	}
	if a.hi != nil && b.lo != nil && a.hi.Cmp(b.lo) <= 0 {
		return True
	}
	if a.lo != nil && b.hi != nil && a.lo.Cmp(b.hi) > 0 {
		return False
	}
	return mk(OLe, SBool, a, b)
}

func Gt(a, b *Term) *Term { return Lt(b, a) }
func Ge(a, b *Term) *Term { return Le(b, a) }
func Ne(a, b *Term) *Term { return Not(Eq(a, b)) }

func Not(a *Term) *Term {
	if x, ok := a.BoolVal(); ok {
		return BoolC(!x)
	}
	if a.op == ONot {
		return a.args[0]
	}
	if a.op == OLt && a.args[0].sort == SInt {
		return Le(a.args[1], a.args[0])
	}
	if a.op == OLe && a.args[0].sort == SInt {
		return Lt(a.args[1], a.args[0])
	}
	return mk(ONot, SBool, a)
}

func And(ts ...*Term) *Term {
	var out []*Term
	for _, t := range ts {
		if x, ok := t.BoolVal(); ok {
			if !x {
				return False
			}
			continue
		}
		if t.op == OAnd {
			out = append(out, t.args...)
			continue
		}
		out = append(out, t)
	}
	// dedupe & contradiction
	seen := map[string]bool{}
	var res []*Term
	for _, t := range out {
		if seen[t.key] {
			continue
		}
		seen[t.key] = true
		res = append(res, t)
	}
	for _, t := range res {
		if t.op == ONot && seen[t.args[0].key] {
			return False
		}
	}
	switch len(res) {
	case 0:
		return True
	case 1:
		return res[0]
	}
	return mk(OAnd, SBool, res...)
}

func Or(ts ...*Term) *Term {
	var out []*Term
	for _, t := range ts {
		if x, ok := t.BoolVal(); ok {
			if x {
				return True
			}
			continue
		}
		if t.op == OOr {
			out = append(out, t.args...)
			continue
		}
		out = append(out, t)
	}
	seen := map[string]bool{}
	var res []*Term
	for _, t := range out {
		if seen[t.key] {
			continue
		}
		seen[t.key] = true
		res = append(res, t)
	}
	for _, t := range res {
		if t.op == ONot && seen[t.args[0].key] {
			return True
		}
	}
	switch len(res) {
	case 0:
		return False
	case 1:
		return res[0]
	}
	return mk(OOr, SBool, res...)
}

func Implies(a, b *Term) *Term { return Or(Not(a), b) }

func Ite(c, a, b *Term) *Term {
	if x, ok := c.BoolVal(); ok {
		if x {
			return a
		}
		return b
	}
	if same(a, b) {
		return a
	}
	a, b = coerce(a, b)
	if a.sort == SReal {
		if x, y, ok := bothInt(a, b); ok {
			return ToReal(Ite(c, x, y))
		}
	}
	if a.sort == SBool {
		if x, ok := a.BoolVal(); ok {
			if y, ok := b.BoolVal(); ok {
				if x && !y {
					return c
				}
				if !x && y {
					return Not(c)
				}
			}
		}
		return Or(And(c, a), And(Not(c), b))
	}
	t := mk(OIte, a.sort, c, a, b)
	if a.sort == SInt {
		if a.lo != nil && b.lo != nil {
			if a.lo.Cmp(b.lo) < 0 {
				t.lo = a.lo
			} else {
				t.lo = b.lo
			}
		}
		if a.hi != nil && b.hi != nil {
			if a.hi.Cmp(b.hi) > 0 {
				t.hi = a.hi
			} else {
				t.hi = b.hi
			}
		}
	}
	return t
}

// UF application.
func UF(name string, s Sort, args ...*Term) *Term {
	t := &Term{op: OUF, sort: s, name: name, args: args}
	var sb strings.Builder
	sb.WriteString("(" + name)
	for _, a := range args {
		sb.WriteByte(' ')
		sb.WriteString(a.key)
	}
	sb.WriteByte(')')
	t.key = sb.String()
	return t
}

var (
	pow2 [130]*big.Int
)

func init() {
	for i := range pow2 {
		pow2[i] = new(big.Int).Lsh(big.NewInt(1), uint(i))
	}
}

// Wrap reduces t into the range of a bits-wide (un)signed machine integer.
func Wrap(t *Term, bits int, signed bool) *Term {
	var lo, hi *big.Int
	if signed {
		lo = new(big.Int).Neg(pow2[bits-1])
		hi = new(big.Int).Sub(pow2[bits-1], big.NewInt(1))
	} else {
		lo = big.NewInt(0)
		hi = new(big.Int).Sub(pow2[bits], big.NewInt(1))
	}
	if t.lo != nil && t.hi != nil && t.lo.Cmp(lo) >= 0 && t.hi.Cmp(hi) <= 0 {
		return t
	}
	if v, ok := t.IntVal(); ok {
		m := new(big.Int).Mod(v, pow2[bits]) // non-negative for positive modulus
		if signed && m.Cmp(pow2[bits-1]) >= 0 {
			m.Sub(m, pow2[bits])
		}
		return BigC(m)
	}
	if signed {
		return Sub(EMod(Add(t, BigC(pow2[bits-1])), BigC(pow2[bits])), BigC(pow2[bits-1]))
	}
	return EMod(t, BigC(pow2[bits]))
}

// SMT printing ---------------------------------------------------------

func smtInt(v *big.Int) string {
	if v.Sign() < 0 {
		return "(- " + new(big.Int).Neg(v).String() + ")"
	}
	return v.String()
}

func smtRat(r *big.Rat) string {
	n, d := r.Num(), r.Denom()
	var s string
	if d.IsInt64() && d.Int64() == 1 {
		s = new(big.Int).Abs(n).String() + ".0"
	} else {
		s = "(/ " + new(big.Int).Abs(n).String() + ".0 " + d.String() + ".0)"
	}
	if n.Sign() < 0 {
		return "(- " + s + ")"
	}
	return s
}

// Printer prints terms as SMT-LIB, naming shared subterms.
type printer struct {
	sb    *strings.Builder
	vars  map[string]*Term
	ufs   map[string]*Term
	count map[*Term]int
}

func (p *printer) collect(t *Term) {
	switch t.op {
	case OVar:
		p.vars[t.name] = t
		return
	case OConst:
		return
	case OUF:
		p.ufs[t.name] = t
	}
	for _, a := range t.args {
		p.collect(a)
	}
}

func (p *printer) print(t *Term) {
	sb := p.sb
	switch t.op {
	case OConst:
		switch t.sort {
		case SBool:
			if t.bv {
				sb.WriteString("true")
			} else {
				sb.WriteString("false")
			}
		case SInt:
			sb.WriteString(smtInt(t.iv))
		case SReal:
			sb.WriteString(smtRat(t.rv))
		}
	case OVar:
		sb.WriteString(t.name)
	case OUF:
		if len(t.args) == 0 {
			sb.WriteString(t.name)
			return
		}
		sb.WriteString("(" + t.name)
		for _, a := range t.args {
			sb.WriteByte(' ')
			p.print(a)
		}
		sb.WriteByte(')')
	default:
		sb.WriteByte('(')
		sb.WriteString(opNames[t.op])
		for _, a := range t.args {
			sb.WriteByte(' ')
			p.print(a)
		}
		sb.WriteByte(')')
	}
}

func (t *Term) String() string {
	var sb strings.Builder
	p := &printer{sb: &sb}
	p.print(t)
	return sb.String()
}

// Eval evaluates a term under a model (var name -> const term). Unknown
// variables default to 0/false. UF applications look up "name(args)" keys in
// the model, defaulting to 0.
func Eval(t *Term, m map[string]*Term) *Term {
	switch t.op {
	case OConst:
		return t
	case OVar:
		if v, ok := m[t.name]; ok {
			return v
		}
		switch t.sort {
		case SBool:
			return False
		case SInt:
			if t.lo != nil && t.lo.Sign() > 0 {
				return BigC(t.lo)
			}
			if t.hi != nil && t.hi.Sign() < 0 {
				return BigC(t.hi)
			}
			return IntC(0)
		}
		return RealOfInt(0)
	}
	args := make([]*Term, len(t.args))
	for i, a := range t.args {
		args[i] = Eval(a, m)
	}
	switch t.op {
	case OAdd:
		return Add(args[0], args[1])
	case OSub:
		return Sub(args[0], args[1])
	case OMul:
		return Mul(args[0], args[1])
	case ONeg:
		return Neg(args[0])
	case ODiv:
		if v, ok := args[1].IntVal(); ok && v.Sign() == 0 {
			return IntC(0)
		}
		return EDiv(args[0], args[1])
	case OMod:
		if v, ok := args[1].IntVal(); ok && v.Sign() == 0 {
			return args[0]
		}
		return EMod(args[0], args[1])
	case ORDiv:
		if v, ok := args[1].RatVal(); ok && v.Sign() == 0 {
			return RealOfInt(0)
		}
		return RDiv(args[0], args[1])
	case OEq:
		return Eq(args[0], args[1])
	case OLt:
		return Lt(args[0], args[1])
	case OLe:
		return Le(args[0], args[1])
	case OAnd:
		return And(args...)
	case OOr:
		return Or(args...)
	case ONot:
		return Not(args[0])
	case OIte:
		return Ite(args[0], args[1], args[2])
	case OToReal:
		return ToReal(args[0])
	case OToInt:
		return ToIntFloor(args[0])
	case OUF:
		k := UF(t.name, t.sort, args...).key
		if v, ok := m[k]; ok {
			return v
		}
		switch t.sort {
		case SBool:
			return False
		case SInt:
			return IntC(0)
		}
		return RealOfInt(0)
	}
	panic("eval: bad op")
}
