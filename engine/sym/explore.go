package sym

import (
	"fmt"
	"math/big"
	"os"
	"runtime/debug"
	"sort"
	"strings"
	"sync"
	"time"

	"golang.org/x/tools/go/ssa"
)

// PathResult summarises one explored path.
type PathResult struct {
	End       string
	Msg       string
	Decisions int
	Steps     int
	Events    []Event
	Asserts   int
	Notes     []string
	Tags      map[string]string
	Sig       string
}

// Finding is a violation (or monitor event) with its concretised inputs.
type Finding struct {
	Harness string                   `json:"harness"`
	Kind    string                   `json:"kind"`
	Msg     string                   `json:"msg"`
	Where   string                   `json:"where,omitempty"`
	Stack   []string                 `json:"stack,omitempty"`
	Draws   []map[string]interface{} `json:"draws"`
	Trace   []int                    `json:"decisions"`
	Notes   []string                 `json:"notes,omitempty"`
}

// HarnessReport aggregates the exploration of one harness function.
type HarnessReport struct {
	Name         string
	Paths        int
	Completed    int // paths that ran to the end of the harness
	AssertPaths  int // paths that reached at least one assertion
	Infeasible   int
	Assumed      int
	Unsupported  int
	Budget       int
	Panics       int
	Decisions    int
	Steps        int64
	Findings     []Finding
	UnsupportedM map[string]int
	Inconclusive int
	Sigs         map[string]int
	Reach        map[string]int
	Notes        map[string]int
	Funcs        map[string]bool
	Stubs        map[string]bool
	Incomplete   bool // path cap or time cap hit
	Wall         float64
	SolverSat    int
	SolverUnsat  int
	SolverUnk    int
	SolverSec    float64
	CrossAsked   int
	CrossAgree   int
	CrossDis     int
	CrossUnk     int
	Samples      []map[string]interface{}
	InternalErrs []string
}

type ExploreOpts struct {
	Workers   int
	MaxPaths  int
	Deadline  time.Time
	StopAfter int // stop exploring once this many findings are recorded (seeded-defect evaluation only)
	Budget    int // per-path instruction budget
	Tier      string
	TimeoutMs int
	// which event kinds are findings for this harness
	PanicIsFinding  bool
	SharedIsFinding bool
	CostIsFinding   bool
	BudgetIsFinding bool
	MaxFindings     int
	SolverName      string
	MaxDecisions    int
	CrossSolver     string // second-opinion solver ("z3-new", "cvc5"), "" = none
	CrossEvery      int
}

func (w *World) newInterp(s *Solver, opts *ExploreOpts) *Interp {
	in := &Interp{
		W:           w,
		Solver:      s,
		globals:     map[*ssa.Global]*Cell{},
		Budget:      opts.Budget,
		varSeq:      map[string]int{},
		FuncsSeen:   map[string]bool{},
		StubsUsed:   map[string]bool{},
		Assumptions: map[string]bool{},
		magicInts:   map[string]*Term{},
		tags:        map[string]string{},
		spec:        defaultSpec(),
		refine:      map[string][2]*big.Int{},
		dom:         map[string]*smallDom{},
		onceDone:    map[*StructV]bool{},
		entangled:   map[string]bool{},
		varsMemo:    map[string][]string{},
		Stats:       &RunStats{},
	}
	in.Cfg.Tier = opts.Tier
	in.Deadline = opts.Deadline
	in.MaxDecisions = opts.MaxDecisions
	if in.MaxDecisions == 0 {
		in.MaxDecisions = 400
	}
	return in
}

// runInits executes the package initialisers of the repository's packages.
func (in *Interp) runInits() {
	var names []string
	for path := range in.W.Pkgs {
		if strings.HasPrefix(path, RepoModule) {
			names = append(names, path)
		}
	}
	sort.Strings(names)
	for _, n := range names {
		p := in.W.Pkgs[n]
		if f := p.Func("init"); f != nil {
			in.CallFunction(f, nil, nil)
		}
	}
	// everything allocated so far is global state
	for _, c := range in.globals {
		setOriginDeep(c.V, OrgGlobal, map[interface{}]bool{})
	}
}

func setOriginDeep(v Value, o Origin, seen map[interface{}]bool) {
	switch x := v.(type) {
	case *StructV:
		if seen[x] {
			return
		}
		seen[x] = true
		x.Org = o
		for _, f := range x.Fields {
			setOriginDeep(f, o, seen)
		}
	case *ArrayV:
		if seen[x] {
			return
		}
		seen[x] = true
		x.Org = o
		for _, f := range x.Elems {
			setOriginDeep(f, o, seen)
		}
	case SliceV:
		if x.Arr != nil {
			setOriginDeep(x.Arr, o, seen)
		}
	case *MapV:
		if x == nil || seen[x] {
			return
		}
		seen[x] = true
		x.Org = o
		for _, e := range x.Vals {
			setOriginDeep(e, o, seen)
		}
	case PtrV:
		if x.R == nil {
			return
		}
		switch c := x.R.(type) {
		case *Cell:
			if seen[c] {
				return
			}
			seen[c] = true
			if c.Org != OrgGlobal {
				c.Org = o
			}
			setOriginDeep(c.V, o, seen)
		case FieldRef:
			setOriginDeep(c.S, o, seen)
		case ElemRef:
			setOriginDeep(c.A, o, seen)
		}
	case IfaceV:
		if x.T != nil {
			setOriginDeep(x.V, o, seen)
		}
	case TupleV:
		for _, e := range x {
			setOriginDeep(e, o, seen)
		}
	}
}

// RunPath executes the harness along the given decision prefix.
func (in *Interp) RunPath(fn *ssa.Function, prefix []int) (res PathResult) {
	in.prefix = append([]int{}, prefix...)
	defer func() {
		if r := recover(); r != nil {
			switch e := r.(type) {
			case pathEnd:
				res.End, res.Msg = e.Kind, e.Msg
			case goPanic:
				res.End, res.Msg = "panic", e.Msg
				r, model := in.query()
				if r == Unsat {
					// the path was only kept by an over-approximate feasibility answer
					res.End, res.Msg = "infeasible", "path condition unsatisfiable"
				} else {
					in.Events = append(in.Events, Event{Kind: "panic", Msg: e.Msg, Where: e.Where, Stack: e.Stack, Model: model})
				}
			default:
				res.End = "internal"
				res.Msg = fmt.Sprintf("%v\n%s", r, debug.Stack())
			}
		}
		res.Decisions = len(in.Trace)
		res.Steps = in.steps
		res.Events = in.Events
		res.Asserts = in.assertsHit
		res.Notes = in.noteList
		res.Tags = in.tags
		var sb strings.Builder
		for _, d := range in.Trace {
			fmt.Fprintf(&sb, "%s:%d/%d,", d.Kind, d.Pick, d.N)
		}
		res.Sig = sb.String()
	}()
	in.runInits()
	in.CallFunction(fn, nil, nil)
	res.End = "done"
	return
}

// Explore runs all paths of the harness.
func (w *World) Explore(name string, opts ExploreOpts) *HarnessReport {
	rep := &HarnessReport{Name: name, UnsupportedM: map[string]int{}, Sigs: map[string]int{}, Reach: map[string]int{}, Notes: map[string]int{}, Funcs: map[string]bool{}, Stubs: map[string]bool{}}
	fn := w.Root.Func(name)
	if fn == nil {
		rep.InternalErrs = append(rep.InternalErrs, "harness function not found: "+name)
		return rep
	}
	t0 := time.Now()
	if opts.Workers <= 0 {
		opts.Workers = 16
	}
	if opts.Budget <= 0 {
		opts.Budget = 400000
	}
	if opts.MaxFindings <= 0 {
		opts.MaxFindings = 8
	}
	if opts.SolverName == "" {
		opts.SolverName = "z3"
	}
	if opts.TimeoutMs <= 0 {
		opts.TimeoutMs = 10000
	}
	var mu sync.Mutex
	cond := sync.NewCond(&mu)
	// work queues keyed by the first decision (normally the template choice),
	// served fairly so that a deadline cuts every template equally
	queues := map[int][][]int{-1: {{}}}
	served := map[int]int{}
	qlen := 1
	push := func(p []int) {
		k := -1
		if len(p) > 0 {
			k = p[0]
		}
		queues[k] = append(queues[k], p)
		qlen++
	}
	pop := func() []int {
		best, bestN := -2, 0
		for k, q := range queues {
			if len(q) == 0 {
				continue
			}
			if best == -2 || served[k] < bestN || (served[k] == bestN && k < best) {
				best, bestN = k, served[k]
			}
		}
		q := queues[best]
		p := q[len(q)-1]
		queues[best] = q[:len(q)-1]
		served[best]++
		qlen--
		return p
	}
	active := 0
	stop := false
	findingCount := map[string]int{}

	worker := func() {
		solver, err := NewSolver(opts.SolverName, opts.TimeoutMs)
		if err != nil {
			mu.Lock()
			rep.InternalErrs = append(rep.InternalErrs, err.Error())
			mu.Unlock()
			return
		}
		var cross *CrossCheck
		if opts.CrossSolver != "" {
			cross = &CrossCheck{Name: opts.CrossSolver, Every: opts.CrossEvery}
		}
		defer func() {
			if cross != nil {
				mu.Lock()
				rep.CrossAsked += cross.Asked
				rep.CrossAgree += cross.Agree
				rep.CrossDis += cross.Disagree
				rep.CrossUnk += cross.Unknown
				mu.Unlock()
				if cross.S != nil {
					cross.S.Close()
				}
			}
		}()
		defer func() {
			mu.Lock()
			rep.SolverSat += solver.NSat
			rep.SolverUnsat += solver.NUnsat
			rep.SolverUnk += solver.NUnknown
			rep.SolverSec += solver.Seconds
			mu.Unlock()
			solver.Close()
		}()
		for {
			mu.Lock()
			for qlen == 0 && active > 0 && !stop {
				cond.Wait()
			}
			if stop || (qlen == 0 && active == 0) {
				mu.Unlock()
				cond.Broadcast()
				return
			}
			// DFS within a template: take the most recently added prefix
			prefix := pop()
			active++
			mu.Unlock()

			in := w.newInterp(solver, &opts)
			in.Cross = cross
			res := in.RunPath(fn, prefix)

			mu.Lock()
			active--
			for _, np := range in.Pending {
				push(np)
			}
			rep.Paths++
			rep.Decisions += res.Decisions
			rep.Steps += int64(res.Steps)
			for f := range in.FuncsSeen {
				rep.Funcs[f] = true
			}
			for f := range in.StubsUsed {
				rep.Stubs[f] = true
			}
			for k := range res.Tags {
				if strings.HasPrefix(k, "reach:") {
					rep.Reach[k[6:]]++
				}
			}
			for _, n := range res.Notes {
				rep.Notes[n]++
			}
			switch res.End {
			case "done":
				rep.Completed++
			case "infeasible":
				rep.Infeasible++
				rep.UnsupportedM["(infeasible) "+res.Msg]++
			case "assumed":
				rep.Assumed++
			case "unsupported":
				rep.Unsupported++
				rep.UnsupportedM[res.Msg]++
			case "budget", "alloc":
				rep.Budget++
			case "deadline":
				rep.Incomplete = true
			case "panic":
				rep.Panics++
			case "internal":
				if len(rep.InternalErrs) < 5 {
					rep.InternalErrs = append(rep.InternalErrs, res.Msg)
				}
			}
			if res.Asserts > 0 {
				rep.AssertPaths++
			}
			if res.End == "done" || res.End == "violation" || res.End == "panic" {
				rep.Sigs[res.Sig]++
			}
			if len(rep.Samples) < 6 && (res.End == "done") && res.Asserts > 0 && (rep.Paths%7 == 1 || len(rep.Samples) == 0) {
				_, sm := in.query()
				if sm == nil {
					sm = map[string]*Term{}
				}
				rep.Samples = append(rep.Samples, map[string]interface{}{
					"harness": name, "end": res.End, "decisions": res.Sig, "steps": res.Steps,
					"inputs": in.CexValues(sm), "notes": res.Notes, "path_condition_conjuncts": len(in.pc),
				})
			}
			for _, ev := range res.Events {
				isFinding := false
				switch ev.Kind {
				case "violation":
					isFinding = true
				case "panic":
					isFinding = opts.PanicIsFinding
				case "sharedwrite":
					isFinding = opts.SharedIsFinding
				case "cost":
					isFinding = opts.CostIsFinding
				case "budget":
					isFinding = opts.BudgetIsFinding
				case "inconclusive":
					rep.Inconclusive++
				}
				if !isFinding {
					continue
				}
				key := ev.Kind + "|" + ev.Msg + "|" + ev.Where
				for _, n := range res.Notes {
					if strings.HasPrefix(n, "template:") || strings.HasPrefix(n, "known:") {
						key += "|" + n
					}
				}
				// several counterexamples per key: a write may be unobservable on one
				// input (it stores the value already there) and visible on another
				limit := 1
				if ev.Kind == "sharedwrite" || ev.Msg == sharedWriteMsg(ev.Msg) {
					limit = 4
				}
				if findingCount[key] >= limit {
					continue
				}
				if len(rep.Findings) >= opts.MaxFindings*24 {
					continue
				}
				findingCount[key]++
				model := ev.Model
				if model == nil {
					model = map[string]*Term{}
				}
				var tr []int
				for _, d := range in.Trace {
					tr = append(tr, d.Pick)
				}
				rep.Findings = append(rep.Findings, Finding{Harness: name, Kind: ev.Kind, Msg: ev.Msg, Where: ev.Where, Stack: ev.Stack, Draws: in.CexValues(model), Trace: tr, Notes: res.Notes})
			}
			if opts.StopAfter > 0 && len(rep.Findings) >= opts.StopAfter && (qlen > 0 || active > 0) {
				rep.Incomplete = true
				stop = true
			}
			if opts.MaxPaths > 0 && rep.Paths >= opts.MaxPaths && (qlen > 0 || active > 0) {
				rep.Incomplete = true
				stop = true
			}
			if !opts.Deadline.IsZero() && time.Now().After(opts.Deadline) && (qlen > 0 || active > 0) {
				rep.Incomplete = true
				stop = true
			}
			mu.Unlock()
			cond.Broadcast()
		}
	}
	var wg sync.WaitGroup
	for i := 0; i < opts.Workers; i++ {
		wg.Add(1)
		go func() {
			defer wg.Done()
			worker()
		}()
	}
	wg.Wait()
	rep.Wall = time.Since(t0).Seconds()
	return rep
}

func (r *HarnessReport) Summary() string {
	return fmt.Sprintf("%s: paths=%d done=%d assertPaths=%d infeasible=%d assumed=%d unsupported=%d budget=%d panics=%d findings=%d inconclusive=%d incomplete=%v wall=%.1fs solver(sat=%d unsat=%d unk=%d %.1fs)",
		r.Name, r.Paths, r.Completed, r.AssertPaths, r.Infeasible, r.Assumed, r.Unsupported, r.Budget, r.Panics, len(r.Findings), r.Inconclusive, r.Incomplete, r.Wall, r.SolverSat, r.SolverUnsat, r.SolverUnk, r.SolverSec)
}

var _ = big.NewInt
var _ = os.Stderr

// sharedWriteMsg returns msg itself if it is one of the harness assertions
// about shared writes (they get several counterexamples, like monitor events).
func sharedWriteMsg(msg string) string {
	if strings.Contains(msg, "wrote to") || strings.Contains(msg, "modified") {
		return msg
	}
	return ""
}
