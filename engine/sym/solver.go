package sym

import (
	"bufio"
	"fmt"
	"io"
	"math/big"
	"os"
	"os/exec"
	"strings"
	"time"
)

type Result int

const (
	Unsat Result = iota
	Sat
	Unknown
)

func (r Result) String() string {
	switch r {
	case Unsat:
		return "unsat"
	case Sat:
		return "sat"
	}
	return "unknown"
}

// Solver wraps one long-lived SMT solver process speaking SMT-LIB2 on stdin.
type Solver struct {
	Name     string
	argv     []string
	cmd      *exec.Cmd
	in       io.WriteCloser
	out      *bufio.Reader
	declared map[string]bool
	// statistics
	NSat, NUnsat, NUnknown int
	Seconds                float64
	TimeoutMs              int
	Log                    io.Writer
}

func NewSolver(name string, timeoutMs int) (*Solver, error) {
	s := &Solver{Name: name, TimeoutMs: timeoutMs}
	switch name {
	case "z3":
		s.argv = []string{"z3", "-in"}
	case "z3-new":
		s.argv = []string{"z3-new", "-in"}
	case "cvc5":
		s.argv = []string{"cvc5", "--incremental", "--lang", "smt2", "--produce-models", fmt.Sprintf("--tlimit-per=%d", timeoutMs)}
	default:
		return nil, fmt.Errorf("unknown solver %s", name)
	}
	if err := s.start(); err != nil {
		return nil, err
	}
	return s, nil
}

func (s *Solver) start() error {
	s.cmd = exec.Command(s.argv[0], s.argv[1:]...)
	in, err := s.cmd.StdinPipe()
	if err != nil {
		return err
	}
	out, err := s.cmd.StdoutPipe()
	if err != nil {
		return err
	}
	s.cmd.Stderr = nil
	if err := s.cmd.Start(); err != nil {
		return err
	}
	s.in = in
	s.out = bufio.NewReaderSize(out, 1<<16)
	s.declared = map[string]bool{}
	if s.Name == "cvc5" {
		s.send("(set-logic ALL)\n")
	} else {
		s.send(fmt.Sprintf("(set-option :timeout %d)\n", s.TimeoutMs))
	}
	return nil
}

func (s *Solver) Close() {
	if s.cmd != nil {
		s.in.Close()
		s.cmd.Process.Kill()
		s.cmd.Wait()
		s.cmd = nil
	}
}

func (s *Solver) send(str string) {
	if s.Log != nil {
		io.WriteString(s.Log, str)
	}
	io.WriteString(s.in, str)
}

func (s *Solver) readLine() (string, error) {
	l, err := s.out.ReadString('\n')
	return strings.TrimRight(l, "\r\n"), err
}

// readSexp reads one balanced s-expression (possibly multi-line).
func (s *Solver) readSexp() (string, error) {
	var sb strings.Builder
	depth := 0
	started := false
	for {
		l, err := s.readLine()
		if err != nil {
			return sb.String(), err
		}
		sb.WriteString(l)
		sb.WriteByte('\n')
		for _, c := range l {
			if c == '(' {
				depth++
				started = true
			} else if c == ')' {
				depth--
			}
		}
		if started && depth <= 0 {
			return sb.String(), nil
		}
		if !started && strings.TrimSpace(l) != "" {
			return sb.String(), nil
		}
	}
}

func (s *Solver) restart() {
	s.Close()
	s.start()
}

// Check decides satisfiability of the conjunction of asserts. If wantModel
// and the result is Sat, values for all variables (and UF applications given
// in ufApps) are returned.
func (s *Solver) Check(asserts []*Term, wantModel bool) (Result, map[string]*Term) {
	t0 := time.Now()
	defer func() { s.Seconds += time.Since(t0).Seconds() }()
	var sb strings.Builder
	p := &printer{sb: &sb, vars: map[string]*Term{}, ufs: map[string]*Term{}}
	for _, a := range asserts {
		p.collect(a)
	}
	// declarations (outside push so they persist)
	for name, v := range p.vars {
		if !s.declared[name] {
			s.declared[name] = true
			fmt.Fprintf(&sb, "(declare-const %s %s)\n", name, v.sort)
		}
	}
	for name, u := range p.ufs {
		if !s.declared["uf:"+name] {
			s.declared["uf:"+name] = true
			fmt.Fprintf(&sb, "(declare-fun %s (", name)
			for i, a := range u.args {
				if i > 0 {
					sb.WriteByte(' ')
				}
				sb.WriteString(a.sort.String())
			}
			fmt.Fprintf(&sb, ") %s)\n", u.sort)
		}
	}
	sb.WriteString("(push 1)\n")
	for _, a := range asserts {
		sb.WriteString("(assert ")
		p.print(a)
		sb.WriteString(")\n")
	}
	sb.WriteString("(check-sat)\n")
	// watchdog: z3 does not always honour :timeout (non-linear preprocessing)
	proc := s.cmd.Process
	wd := time.AfterFunc(time.Duration(s.TimeoutMs+3000)*time.Millisecond, func() { proc.Kill() })
	defer wd.Stop()
	tq := time.Now()
	qtext := sb.String()
	defer func() {
		if d := time.Since(tq); d > 2*time.Second {
			if dir := os.Getenv("VERIF_SLOWLOG"); dir != "" {
				os.MkdirAll(dir, 0o755)
				os.WriteFile(fmt.Sprintf("%s/slow_%d_%d.smt2", dir, os.Getpid(), time.Now().UnixNano()), []byte(fmt.Sprintf("; %.1fs\n%s", d.Seconds(), qtext)), 0o644)
			}
		}
	}()
	s.send(qtext)
	line, err := s.readLine()
	for err == nil && strings.TrimSpace(line) == "" {
		line, err = s.readLine()
	}
	res := Unknown
	if err != nil {
		s.restart()
		s.NUnknown++
		return Unknown, nil
	}
	switch strings.TrimSpace(line) {
	case "sat":
		res = Sat
	case "unsat":
		res = Unsat
	default:
		res = Unknown
		if strings.HasPrefix(line, "(error") {
			// an error may leave the solver in an odd state: restart
			s.restart()
			s.NUnknown++
			return Unknown, nil
		}
	}
	var model map[string]*Term
	if res == Sat && wantModel && len(p.vars) > 0 {
		var names []string
		for n := range p.vars {
			names = append(names, n)
		}
		s.send("(get-value (" + strings.Join(names, " ") + "))\n")
		txt, err := s.readSexp()
		if err != nil || strings.HasPrefix(strings.TrimSpace(txt), "(error") {
			s.restart()
			s.NUnknown++
			return Unknown, nil
		}
		model = parseModel(txt, p.vars)
	}
	s.send("(pop 1)\n")
	switch res {
	case Sat:
		s.NSat++
	case Unsat:
		s.NUnsat++
	default:
		s.NUnknown++
	}
	return res, model
}

// --- tiny s-expression parser for get-value output ---

type sx struct {
	atom string
	list []*sx
}

func parseSx(s string, i int) (*sx, int) {
	for i < len(s) && (s[i] == ' ' || s[i] == '\n' || s[i] == '\t' || s[i] == '\r') {
		i++
	}
	if i >= len(s) {
		return nil, i
	}
	if s[i] == '(' {
		i++
		n := &sx{list: []*sx{}}
		for {
			for i < len(s) && (s[i] == ' ' || s[i] == '\n' || s[i] == '\t' || s[i] == '\r') {
				i++
			}
			if i >= len(s) {
				return n, i
			}
			if s[i] == ')' {
				return n, i + 1
			}
			var c *sx
			c, i = parseSx(s, i)
			if c == nil {
				return n, i
			}
			n.list = append(n.list, c)
		}
	}
	j := i
	for j < len(s) && s[j] != ' ' && s[j] != '\n' && s[j] != '(' && s[j] != ')' && s[j] != '\t' && s[j] != '\r' {
		j++
	}
	return &sx{atom: s[i:j]}, j
}

func sxRat(n *sx) (*big.Rat, bool) {
	if n.list == nil {
		a := n.atom
		r := new(big.Rat)
		if _, ok := r.SetString(a); ok {
			return r, true
		}
		return nil, false
	}
	if len(n.list) == 2 && n.list[0].atom == "-" {
		r, ok := sxRat(n.list[1])
		if !ok {
			return nil, false
		}
		return r.Neg(r), true
	}
	if len(n.list) == 3 && n.list[0].atom == "/" {
		a, ok1 := sxRat(n.list[1])
		b, ok2 := sxRat(n.list[2])
		if !ok1 || !ok2 || b.Sign() == 0 {
			return nil, false
		}
		return a.Quo(a, b), true
	}
	if len(n.list) == 2 && n.list[0].atom == "to_real" {
		return sxRat(n.list[1])
	}
	return nil, false
}

func parseModel(txt string, vars map[string]*Term) map[string]*Term {
	root, _ := parseSx(txt, 0)
	m := map[string]*Term{}
	if root == nil {
		return m
	}
	for _, pair := range root.list {
		if len(pair.list) != 2 || pair.list[0].list != nil {
			continue
		}
		name := pair.list[0].atom
		v, ok := vars[name]
		if !ok {
			continue
		}
		val := pair.list[1]
		switch v.sort {
		case SBool:
			m[name] = BoolC(val.atom == "true")
		case SInt:
			if r, ok := sxRat(val); ok && r.IsInt() {
				m[name] = BigC(r.Num())
			}
		case SReal:
			if r, ok := sxRat(val); ok {
				m[name] = RatC(r)
			}
		}
	}
	return m
}
