package sym

import (
	"encoding/json"
	"fmt"
	"os"
	"path/filepath"
	"runtime/debug"
	"sort"
	"strings"

	"github.com/woodsbury/decimal128"
	"golang.org/x/tools/go/ssa"
)

// Translator validation: every case of the repository's own compliance corpus
// is executed through the interpreter with concrete inputs and must give the
// outcome the corpus records (which the natively compiled library passes).

type corpusCase struct {
	Expression string      `json:"expression"`
	Result     interface{} `json:"result"`
	Error      string      `json:"error"`
}

type corpusGroup struct {
	Given interface{}  `json:"given"`
	Cases []corpusCase `json:"cases"`
}

func nativeEqual(x, y interface{}) bool {
	switch a := x.(type) {
	case []interface{}:
		b, ok := y.([]interface{})
		if !ok || len(a) != len(b) {
			return false
		}
		for i := range a {
			if !nativeEqual(a[i], b[i]) {
				return false
			}
		}
		return true
	case map[string]interface{}:
		b, ok := y.(map[string]interface{})
		if !ok || len(a) != len(b) {
			return false
		}
		for k := range a {
			bv, ok := b[k]
			if !ok || !nativeEqual(a[k], bv) {
				return false
			}
		}
		return true
	case nil:
		return y == nil
	case bool:
		b, ok := y.(bool)
		return ok && a == b
	case string:
		b, ok := y.(string)
		return ok && a == b
	case json.Number:
		ad, err := decimal128.Parse(string(a))
		if err != nil {
			return false
		}
		switch b := y.(type) {
		case int64:
			return ad.Equal(decimal128.FromInt64(b))
		case uint64:
			return ad.Equal(decimal128.FromUint64(b))
		case json.Number:
			bd, err := decimal128.Parse(string(b))
			return err == nil && ad.Equal(bd)
		case decimal128.Decimal:
			return ad.Equal(b)
		case float64:
			return ad.Equal(decimal128.FromFloat64(b))
		}
		return false
	}
	return false
}

var errorGlobals = map[string]string{
	"invalid-arity":      "ErrInvalidArity",
	"invalid-type":       "ErrInvalidType",
	"invalid-value":      "ErrInvalidValue",
	"syntax":             "ErrSyntax",
	"undefined-variable": "ErrUndefinedVariable",
	"unknown-function":   "ErrUnknownFunction",
	"not-a-number":       "ErrNotANumber",
}

type SelfTestResult struct {
	Total, Pass int
	Failures    []string
}

func (w *World) SelfTest(dirs []string, solver *Solver, limit int) SelfTestResult {
	var res SelfTestResult
	search := w.Root.Func("Search")
	for _, dir := range dirs {
		files, _ := filepath.Glob(filepath.Join(dir, "*.json"))
		sort.Strings(files)
		for _, f := range files {
			data, err := os.ReadFile(f)
			if err != nil {
				res.Failures = append(res.Failures, err.Error())
				continue
			}
			dec := json.NewDecoder(strings.NewReader(string(data)))
			dec.UseNumber()
			var groups []corpusGroup
			if err := dec.Decode(&groups); err != nil {
				res.Failures = append(res.Failures, f+": "+err.Error())
				continue
			}
			for _, g := range groups {
				for _, c := range g.Cases {
					if limit > 0 && res.Total >= limit {
						return res
					}
					res.Total++
					msg := w.selfTestCase(search, solver, g.Given, c)
					if msg == "" {
						res.Pass++
					} else if len(res.Failures) < 60 {
						res.Failures = append(res.Failures, fmt.Sprintf("%s %q: %s", filepath.Base(f), c.Expression, msg))
					}
				}
			}
		}
	}
	return res
}

func (w *World) selfTestCase(search *ssa.Function, solver *Solver, given interface{}, c corpusCase) (msg string) {
	opts := &ExploreOpts{Budget: 2000000}
	in := w.newInterp(solver, opts)
	defer func() {
		if r := recover(); r != nil {
			switch e := r.(type) {
			case pathEnd:
				msg = "path ended: " + e.Kind + ": " + e.Msg
			case goPanic:
				msg = "interpreted panic: " + e.Msg + " at " + e.Where
			default:
				msg = fmt.Sprintf("internal: %v\n%s", r, debug.Stack())
			}
		}
	}()
	in.runInits()
	doc := in.fromNativeJSON(given)
	setOriginDeep(doc, OrgDoc, map[interface{}]bool{})
	out := in.CallFunction(search, []Value{ConcStr(c.Expression), doc}, nil).(TupleV)
	errV := in.force(out[1])
	nd := 0
	for _, d := range in.Trace {
		if d.Kind != "pool" { // whether a sync.Pool hands a pooled object out again is the runtime's choice
			nd++
		}
	}
	if nd > 0 {
		return fmt.Sprintf("concrete run made %d decisions", nd)
	}
	if c.Error != "" {
		if errV.T == nil {
			return "expected error " + c.Error + ", got none"
		}
		gname, ok := errorGlobals[c.Error]
		if !ok {
			return "unknown error class " + c.Error
		}
		g := w.Root.Var(gname)
		target := in.force(in.global(g).Load())
		r := in.errorsIs(errV, target)
		if b, ok := r.BoolVal(); !ok || !b {
			em := in.CallFunction(in.findMethod(errV.T, "Error"), []Value{errV.V}, nil)
			return "wrong error class, want " + c.Error + " got " + in.describe(em)
		}
		return ""
	}
	if errV.T != nil {
		em := in.CallFunction(in.findMethod(errV.T, "Error"), []Value{errV.V}, nil)
		return "unexpected error: " + in.describe(em)
	}
	nv, ok := toNativeJSON(in, out[0])
	if !ok {
		return "result not concrete"
	}
	if !nativeEqual(c.Result, nv) {
		return fmt.Sprintf("result mismatch: want %v got %v", c.Result, nv)
	}
	return ""
}

// SymbolicSelfTest runs the H_ST_* harnesses and compares with their known
// outcomes; it guards against engine regressions that would make checks
// vacuous (e.g. every path wrongly infeasible).
func (w *World) SymbolicSelfTest() []string {
	var bad []string
	exp := func(h string, check func(r *HarnessReport) string) {
		r := w.Explore(h, ExploreOpts{Workers: 4, Tier: "quick"})
		if len(r.InternalErrs) > 0 {
			bad = append(bad, h+": internal error: "+firstLines(r.InternalErrs[0], 3))
			return
		}
		if m := check(r); m != "" {
			bad = append(bad, h+": "+m+" ("+r.Summary()+")")
		}
	}
	exp("H_ST_twin", func(r *HarnessReport) string {
		if len(r.Findings) != 1 {
			return "reachability twin not violated exactly once"
		}
		for _, d := range r.Findings[0].Draws {
			if d["name"] == "x" && d["v"] != "6" {
				return "wrong model for twin"
			}
		}
		return ""
	})
	exp("H_ST_branches", func(r *HarnessReport) string {
		if r.Completed != 3 || r.Reach["end"] != 3 || len(r.Findings) != 0 {
			return "expected 3 completed paths and no finding"
		}
		return ""
	})
	exp("H_ST_doc", func(r *HarnessReport) string {
		for _, k := range []string{"nil", "bool", "string", "array", "object", "number"} {
			if r.Reach[k] == 0 {
				return "document type " + k + " not reached"
			}
		}
		return ""
	})
	exp("H_ST_wrap", func(r *HarnessReport) string {
		if len(r.Findings) != 0 || r.Completed < 3 || r.Inconclusive > 0 {
			return "integer arithmetic model"
		}
		return ""
	})
	exp("H_ST_strings", func(r *HarnessReport) string {
		if len(r.Findings) != 0 || r.Completed < 2 {
			return "string / map model"
		}
		return ""
	})
	return bad
}
