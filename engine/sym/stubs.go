package sym

import (
	"encoding/json"
	"errors"
	"fmt"
	"go/types"
	"io"
	"math"
	"math/big"
	"math/bits"
	"sort"
	"strconv"
	"strings"
	"unicode"
	"unicode/utf8"

	"github.com/woodsbury/decimal128"
	"golang.org/x/tools/go/ssa"
)

// nativeGlobals are package-level variables of packages whose init is not
// interpreted.
var nativeGlobals = map[string]interface{}{
	"io.EOF":            io.EOF,
	"strconv.ErrSyntax": strconv.ErrSyntax,
	"strconv.ErrRange":  strconv.ErrRange,
}

func (in *Interp) nativeErr(err error) Value {
	if err == nil {
		return NilIface
	}
	t := in.W.LookupType("errors", "errorString")
	return IfaceV{T: types.NewPointer(t), V: &NativeV{V: err, Kind: "error"}}
}

func (in *Interp) concStr(v Value) (string, bool) {
	s, ok := v.(*StrV)
	if !ok || !s.IsConc() {
		return "", false
	}
	return s.Conc, true
}

func (in *Interp) concBytes(v Value) ([]byte, bool) {
	s, ok := v.(SliceV)
	if !ok {
		return nil, false
	}
	out := make([]byte, s.Len)
	for i := 0; i < s.Len; i++ {
		t, ok := s.Arr.Elems[s.Off+i].(*Term)
		if !ok {
			return nil, false
		}
		b, ok := t.Int64Val()
		if !ok {
			return nil, false
		}
		out[i] = byte(b)
	}
	return out, true
}

func (in *Interp) opaqueStr() *StrV { return &StrV{Opaque: true} }

func (in *Interp) nativeMethod(nv *NativeV, t types.Type, name string, args []Value) Value {
	switch nv.Kind {
	case "error":
		if name == "Error" {
			return ConcStr(nv.V.(error).Error())
		}
	case "rtype":
		switch name {
		case "String":
			return ConcStr(in.rtypeString(nv))
		case "Name":
			ty := in.rtypeType(nv)
			if n, ok := ty.(*types.Named); ok {
				return ConcStr(n.Obj().Name())
			}
			return ConcStr("")
		case "Kind":
			ty := in.rtypeType(nv)
			switch ty.Underlying().(type) {
			case *types.Pointer:
				return IntC(22) // reflect.Pointer
			case *types.Struct:
				return IntC(25)
			}
			return IntC(0)
		case "Elem":
			ty := in.rtypeType(nv)
			if p, ok := ty.Underlying().(*types.Pointer); ok {
				return IfaceV{T: t, V: &NativeV{Kind: "rtype", V: p.Elem()}}
			}
			in.goPanic("reflect: Elem of invalid type")
		}
	}
	in.unsupported("native method " + nv.Kind + "." + name)
	return nil
}

func (in *Interp) rtypeType(nv *NativeV) types.Type {
	switch x := nv.V.(type) {
	case types.Type:
		return x
	case *LazyV:
		iv := in.lazyForce(x)
		return iv.T
	}
	return nil
}

func (in *Interp) rtypeString(nv *NativeV) string {
	t := in.rtypeType(nv)
	if t == nil {
		return "<nil>"
	}
	return types.TypeString(t, func(p *types.Package) string { return p.Name() })
}

func (in *Interp) hasNonASCII(s *StrV) bool {
	if s.IsConc() {
		for i := 0; i < len(s.Conc); i++ {
			if s.Conc[i] >= 0x80 {
				return true
			}
		}
		return false
	}
	for i := 0; i < s.Len(); i++ {
		if !in.branch(Lt(s.Byte(i), IntC(0x80))) {
			return true
		}
	}
	return false
}

// matchAt builds the term "sub occurs in s at position i".
func matchAt(s, sub *StrV, i int) *Term {
	cs := make([]*Term, 0, sub.Len())
	for j := 0; j < sub.Len(); j++ {
		cs = append(cs, Eq(s.Byte(i+j), sub.Byte(j)))
	}
	return And(cs...)
}

// strIndex models strings.Index / LastIndex, forking over the result.
func (in *Interp) strIndex(s, sub *StrV, last bool) int {
	in.needBytes(s, "Index")
	in.needBytes(sub, "Index")
	if s.IsConc() && sub.IsConc() {
		if last {
			return strings.LastIndex(s.Conc, sub.Conc)
		}
		return strings.Index(s.Conc, sub.Conc)
	}
	n, m := s.Len(), sub.Len()
	if m > n {
		return -1
	}
	if m == 0 {
		if last {
			return n
		}
		return 0
	}
	var pos []int
	for i := 0; i+m <= n; i++ {
		pos = append(pos, i)
	}
	if last {
		for i, j := 0, len(pos)-1; i < j; i, j = i+1, j-1 {
			pos[i], pos[j] = pos[j], pos[i]
		}
	}
	var alts []*Term
	var noneBefore []*Term
	for _, p := range pos {
		mt := matchAt(s, sub, p)
		alts = append(alts, And(append(append([]*Term{}, noneBefore...), mt)...))
		noneBefore = append(noneBefore, Not(mt))
	}
	alts = append(alts, And(noneBefore...))
	k := in.decide("strindex", alts)
	if k == len(pos) {
		return -1
	}
	return pos[k]
}

func (in *Interp) isSpaceASCII(b *Term) *Term {
	return Or(Eq(b, IntC(' ')), And(Ge(b, IntC(9)), Le(b, IntC(13))))
}

func (in *Interp) trimModel(s *StrV, left, right bool, inSet func(b *Term) *Term) *StrV {
	lo, hi := 0, s.Len()
	if left {
		for lo < hi && in.branch(inSet(s.Byte(lo))) {
			lo++
		}
	}
	if right {
		for hi > lo && in.branch(inSet(s.Byte(hi-1))) {
			hi--
		}
	}
	return s.Slice(lo, hi)
}

func builderBuf(in *Interp, recv Value) FieldRef {
	p := recv.(PtrV)
	if p.R == nil {
		in.goPanic("nil pointer dereference (strings.Builder)")
	}
	s := p.R.Load().(*StructV)
	return FieldRef{s, 1}
}

func (in *Interp) builderAppend(recv Value, bs []*Term) {
	ref := builderBuf(in, recv)
	sl := ref.Load().(SliceV)
	if lim := in.allocLimit() * 4; sl.Len+len(bs) > lim {
		_, model := in.query()
		in.Events = append(in.Events, Event{Kind: "cost", Msg: fmt.Sprintf("strings.Builder grows beyond %d bytes (result size not bounded by the harness bounds)", lim), Where: in.where(), Model: model, Stack: in.stackNames()})
		in.end("alloc", "builder too large")
	}
	vals := make([]Value, len(bs))
	for i, b := range bs {
		vals[i] = b
	}
	add := SliceV{Arr: &ArrayV{Elems: vals}, Len: len(vals), Cap: len(vals)}
	ns := in.appendOp(sl, add, types.NewSlice(types.Typ[types.Uint8]))
	ref.Store(ns)
}

func decFromNative(d decimal128.Decimal) *DecV {
	switch {
	case d.IsNaN():
		return &DecV{Cls: DNaN}
	case d.IsInf(1):
		return &DecV{Cls: DPosInf}
	case d.IsInf(-1):
		return &DecV{Cls: DNegInf}
	}
	r := d.Rat(nil)
	return &DecV{Cls: DFinite, Val: RatC(r), NegZ: d.IsZero() && d.Signbit()}
}

func decFinite(v *Term) *DecV { return &DecV{Cls: DFinite, Val: v} }

func expOf(e int) *int { return &e }

// decFromNativeExact: like decFromNative for a value the real library built
// from the program's own input (so its encoding is the real one).
func decFromNativeExact(d decimal128.Decimal) *DecV {
	v := decFromNative(d)
	if v.Cls == DFinite {
		_, _, _, e := d.Decompose(nil)
		v.Exp = expOf(int(e))
	}
	return v
}

func numTextExp(nt *NumText) *int {
	switch nt.Form {
	case NFInt, NFExp:
		return expOf(0)
	case NFDot:
		if nt.Scale > 0 {
			return expOf(-nt.Scale)
		}
		return expOf(-1)
	}
	return nil
}

func withExp(d *DecV, e *int) *DecV {
	d.Exp = e
	return d
}

func isZeroT(v *Term) *Term { return Eq(v, RealOfInt(0)) }

// decSign returns -1/0/+1 class of a DecV as decided on this path.
func (in *Interp) decSign(d *DecV) int {
	switch d.Cls {
	case DPosInf:
		return 1
	case DNegInf:
		return -1
	case DNaN:
		return 0
	}
	k := in.decide("decsign", []*Term{Gt(d.Val, RealOfInt(0)), Lt(d.Val, RealOfInt(0)), isZeroT(d.Val)})
	switch k {
	case 0:
		return 1
	case 1:
		return -1
	}
	return 0
}

// decNative converts a fully concrete DecV to the library's value.
func decNative(d *DecV) (decimal128.Decimal, bool) {
	if d.Lossy {
		return decimal128.Decimal{}, false
	}
	switch d.Cls {
	case DNaN:
		return decimal128.NaN(), true
	case DPosInf:
		return decimal128.Inf(1), true
	case DNegInf:
		return decimal128.Inf(-1), true
	}
	r, ok := d.Val.RatVal()
	if !ok {
		return decimal128.Decimal{}, false
	}
	n := decimal128.FromRat(r)
	if d.NegZ && r.Sign() == 0 {
		n = n.Neg()
	}
	// only values the library represents exactly are handed to it
	if n.Rat(nil).Cmp(r) != 0 {
		return decimal128.Decimal{}, false
	}
	return n, true
}

// decBoth: both operands concrete -> the real library decides (including its
// rounding to 34 digits); otherwise the contract model is used.
func decBoth(x, y *DecV) (decimal128.Decimal, decimal128.Decimal, bool) {
	a, ok1 := decNative(x)
	if !ok1 {
		return a, a, false
	}
	b, ok2 := decNative(y)
	return a, b, ok2
}

func (in *Interp) decAdd(x, y *DecV, sub bool) *DecV {
	if a, b, ok := decBoth(x, y); ok {
		if sub {
			return decFromNative(a.Sub(b))
		}
		return decFromNative(a.Add(b))
	}
	if x.Cls == DNaN || y.Cls == DNaN {
		return &DecV{Cls: DNaN}
	}
	yc := y.Cls
	if sub {
		if yc == DPosInf {
			yc = DNegInf
		} else if yc == DNegInf {
			yc = DPosInf
		}
	}
	if x.Cls != DFinite || yc != DFinite {
		if x.Cls != DFinite && yc != DFinite {
			if x.Cls == yc {
				return &DecV{Cls: x.Cls}
			}
			return &DecV{Cls: DNaN}
		}
		if x.Cls != DFinite {
			return &DecV{Cls: x.Cls}
		}
		return &DecV{Cls: yc}
	}
	if sub {
		return &DecV{Cls: DFinite, Val: Sub(x.Val, y.Val), Lossy: x.Lossy || y.Lossy}
	}
	return &DecV{Cls: DFinite, Val: Add(x.Val, y.Val), Lossy: x.Lossy || y.Lossy}
}

func (in *Interp) decMul(x, y *DecV) *DecV {
	if a, b, ok := decBoth(x, y); ok {
		return decFromNative(a.Mul(b))
	}
	if x.Cls == DNaN || y.Cls == DNaN {
		return &DecV{Cls: DNaN}
	}
	if x.Cls != DFinite || y.Cls != DFinite {
		sx, sy := in.decSign(x), in.decSign(y)
		if sx == 0 || sy == 0 {
			return &DecV{Cls: DNaN}
		}
		if sx*sy > 0 {
			return &DecV{Cls: DPosInf}
		}
		return &DecV{Cls: DNegInf}
	}
	return &DecV{Cls: DFinite, Val: Mul(x.Val, y.Val), Lossy: x.Lossy || y.Lossy}
}

func (in *Interp) decQuo(x, y *DecV) *DecV {
	if a, b, ok := decBoth(x, y); ok {
		return decFromNative(a.Quo(b))
	}
	if x.Cls == DNaN || y.Cls == DNaN {
		return &DecV{Cls: DNaN}
	}
	if x.Cls != DFinite {
		if y.Cls != DFinite {
			return &DecV{Cls: DNaN}
		}
		sx, sy := in.decSign(x), in.decSign(y)
		if sy == 0 {
			sy = 1
			if y.NegZ {
				sy = -1
			}
		}
		if sx*sy > 0 {
			return &DecV{Cls: DPosInf}
		}
		return &DecV{Cls: DNegInf}
	}
	if y.Cls != DFinite {
		return decFinite(RealOfInt(0))
	}
	sy := in.decSign(y)
	if sy == 0 {
		sx := in.decSign(x)
		if sx == 0 {
			return &DecV{Cls: DNaN}
		}
		if y.NegZ {
			sx = -sx
		}
		if sx > 0 {
			return &DecV{Cls: DPosInf}
		}
		return &DecV{Cls: DNegInf}
	}
	return &DecV{Cls: DFinite, Val: RDiv(x.Val, y.Val), Lossy: x.Lossy || y.Lossy}
}

func truncReal(v *Term) *Term {
	return Ite(Ge(v, RealOfInt(0)), ToReal(ToIntFloor(v)), Neg(ToReal(ToIntFloor(Neg(v)))))
}

func (in *Interp) decQuoRem(x, y *DecV) (*DecV, *DecV) {
	if a, b, ok := decBoth(x, y); ok {
		q, r := a.QuoRem(b)
		return decFromNative(q), decFromNative(r)
	}
	if x.Cls == DNaN || y.Cls == DNaN {
		return &DecV{Cls: DNaN}, &DecV{Cls: DNaN}
	}
	if x.Cls != DFinite {
		if y.Cls != DFinite {
			return &DecV{Cls: DNaN}, &DecV{Cls: DNaN}
		}
		q := in.decQuo(x, y)
		return q, &DecV{Cls: DNaN}
	}
	if y.Cls != DFinite {
		return decFinite(RealOfInt(0)), x
	}
	sy := in.decSign(y)
	if sy == 0 {
		q := in.decQuo(x, y)
		return q, &DecV{Cls: DNaN}
	}
	q := truncReal(RDiv(x.Val, y.Val))
	r := Sub(x.Val, Mul(q, y.Val))
	l := x.Lossy || y.Lossy
	return &DecV{Cls: DFinite, Val: q, Lossy: l}, &DecV{Cls: DFinite, Val: r, Lossy: l}
}

// decCmp returns -2 (NaN), -1, 0, 1 decided on this path.
func (in *Interp) decCmp(x, y *DecV) int {
	if x.Cls == DNaN || y.Cls == DNaN {
		return -2
	}
	rank := func(d *DecV) int {
		switch d.Cls {
		case DNegInf:
			return -1
		case DPosInf:
			return 1
		}
		return 0
	}
	rx, ry := rank(x), rank(y)
	if rx != 0 || ry != 0 {
		switch {
		case rx < ry:
			return -1
		case rx > ry:
			return 1
		}
		return 0
	}
	k := in.decide("deccmp", []*Term{Lt(x.Val, y.Val), Eq(x.Val, y.Val), Gt(x.Val, y.Val)})
	return k - 1
}

func (in *Interp) floatToDec(f *FloatV) *DecV {
	switch f.Cls {
	case FNaN:
		return &DecV{Cls: DNaN}
	case FPosInf:
		return &DecV{Cls: DPosInf}
	case FNegInf:
		return &DecV{Cls: DNegInf}
	}
	if g, ok := f.GoFloat(); ok {
		if f.Bits == 32 {
			return decFromNative(decimal128.FromFloat32(float32(g)))
		}
		return decFromNative(decimal128.FromFloat64(g))
	}
	return &DecV{Cls: DFinite, Val: f.Val, Lossy: f.Lossy, NegZ: f.NegZ}
}

func toNativeJSON(in *Interp, v Value) (interface{}, bool) {
	switch x := v.(type) {
	case *LazyV:
		if x.Res == nil {
			return nil, false
		}
		return toNativeJSON(in, *x.Res)
	case IfaceV:
		if x.T == nil {
			return nil, true
		}
		if in.W.TJNum != nil && types.Identical(x.T, in.W.TJNum) {
			s, ok := in.concStr(x.V)
			return json.Number(s), ok
		}
		return toNativeJSON(in, x.V)
	case *Term:
		if b, ok := x.BoolVal(); ok {
			return b, true
		}
		if i, ok := x.Int64Val(); ok {
			return i, true
		}
		if i, ok := x.IntVal(); ok {
			return i.Uint64(), true
		}
		return nil, false
	case *StrV:
		s, ok := in.concStr(x)
		return s, ok
	case *FloatV:
		g, ok := x.GoFloat()
		return g, ok
	case *DecV:
		if x.Cls != DFinite {
			switch x.Cls {
			case DNaN:
				return decimal128.NaN(), true
			case DPosInf:
				return decimal128.Inf(1), true
			}
			return decimal128.Inf(-1), true
		}
		r, ok := x.Val.RatVal()
		if !ok {
			return nil, false
		}
		return decimal128.FromRat(r), true
	case SliceV:
		out := make([]interface{}, x.Len)
		for i := 0; i < x.Len; i++ {
			e, ok := toNativeJSON(in, x.Arr.Elems[x.Off+i])
			if !ok {
				return nil, false
			}
			out[i] = e
		}
		return out, true
	case *MapV:
		out := map[string]interface{}{}
		if x != nil {
			for i, k := range x.Keys {
				ks, ok := in.concStr(k)
				if !ok {
					return nil, false
				}
				e, ok := toNativeJSON(in, x.Vals[i])
				if !ok {
					return nil, false
				}
				out[ks] = e
			}
		}
		return out, true
	case *StructV:
		return struct{}{}, true
	case PtrV:
		return &struct{}{}, true
	}
	return nil, false
}

// marshalMayFail reports whether json.Marshal of v can fail.
func marshalMayFail(in *Interp, v Value) bool {
	switch x := v.(type) {
	case *LazyV:
		if x.Res == nil {
			return x.Poss&(UFloats|1<<TJNum|1<<TDec) != 0 && false
		}
		return marshalMayFail(in, *x.Res)
	case IfaceV:
		if x.T == nil {
			return false
		}
		return marshalMayFail(in, x.V)
	case *FloatV:
		return x.Cls != FFinite
	case *StrV:
		return x.Num != nil && x.Num.Form == NFBad
	case SliceV:
		for i := 0; i < x.Len; i++ {
			if marshalMayFail(in, x.Arr.Elems[x.Off+i]) {
				return true
			}
		}
	case *MapV:
		if x != nil {
			for _, e := range x.Vals {
				if marshalMayFail(in, e) {
					return true
				}
			}
		}
	}
	return false
}

func (in *Interp) fromNativeJSON(v interface{}) Value {
	org := in.org()
	switch x := v.(type) {
	case nil:
		return NilIface
	case bool:
		return IfaceV{T: in.W.TBool, V: BoolC(x)}
	case string:
		return IfaceV{T: in.W.TString, V: ConcStr(x)}
	case json.Number:
		return IfaceV{T: in.W.TJNum, V: ConcStr(string(x))}
	case float64:
		return IfaceV{T: types.Typ[types.Float64], V: FloatFromGo(x, 64)}
	case []interface{}:
		arr := &ArrayV{Elems: make([]Value, len(x)), Org: org, ET: in.W.TAny}
		for i, e := range x {
			arr.Elems[i] = in.fromNativeJSON(e)
		}
		return IfaceV{T: in.W.TAnySlice, V: SliceV{Arr: arr, Len: len(x), Cap: len(x)}}
	case map[string]interface{}:
		m := &MapV{Org: org, KT: in.W.TString, VT: in.W.TAny}
		keys := make([]string, 0, len(x))
		for k := range x {
			keys = append(keys, k)
		}
		sort.Strings(keys)
		for _, k := range keys {
			m.Keys = append(m.Keys, ConcStr(k))
			m.Vals = append(m.Vals, in.fromNativeJSON(x[k]))
		}
		return IfaceV{T: in.W.TAnyMap, V: m}
	}
	in.unsupported(fmt.Sprintf("fromNativeJSON %T", v))
	return nil
}

func (in *Interp) org() Origin {
	if in.parseDepth > 0 {
		return OrgAST
	}
	if in.underTest > 0 {
		return OrgCall
	}
	return OrgHarness
}

func (in *Interp) toDec(v Value) *DecV {
	d, ok := v.(*DecV)
	if !ok {
		in.unsupported(fmt.Sprintf("decimal argument is %T", v))
	}
	return d
}

var unicodeReps = []rune{0x101, 0x410, 0x661, 0x300, 0x2003, 0x4e2d, 0xfffd, 0x1d11e, 0x10fffd}

func registerStubs(w *World) {
	S := w.Stubs
	// ---- sync: single-threaded interpretation, locks are no-ops ----
	noop := func(in *Interp, fn *ssa.Function, a []Value) Value { return nil }
	for _, n := range []string{"(*sync.Mutex).Lock", "(*sync.Mutex).Unlock", "(*sync.RWMutex).Lock", "(*sync.RWMutex).Unlock", "(*sync.RWMutex).RLock", "(*sync.RWMutex).RUnlock", "(*sync.WaitGroup).Add", "(*sync.WaitGroup).Done", "(*sync.WaitGroup).Wait"} {
		S[n] = noop
	}
	S["(*sync.Mutex).TryLock"] = func(in *Interp, fn *ssa.Function, a []Value) Value { return True }
	S["(*sync.Once).Do"] = func(in *Interp, fn *ssa.Function, a []Value) Value {
		p := a[0].(PtrV)
		st := p.R.Load().(*StructV)
		// field 0 is the done flag (atomic.Uint32 or uint32 depending on version): use an engine-side mark
		if st.Org == OrgGlobal || st.Org == OrgAST {
			if in.monitorOn && in.underTest > 0 && in.parseDepth == 0 && !in.onceDone[st] {
				in.Events = append(in.Events, Event{Kind: "sharedwrite", Msg: "sync.Once initialises shared state lazily", Where: in.where(), Stack: in.stackNames()})
			}
		}
		if !in.onceDone[st] {
			in.onceDone[st] = true
			in.callFuncV(a[1].(*FuncV), nil)
		}
		return nil
	}
	registerSyncStubs(w)
	S["strings.Fields"] = func(in *Interp, fn *ssa.Function, a []Value) Value {
		s, ok := in.concStr(a[0])
		if !ok {
			in.unsupported("strings.Fields on symbolic text")
		}
		fs := strings.Fields(s)
		arr := &ArrayV{Elems: make([]Value, len(fs)), Org: in.org(), ET: in.W.TString}
		for i, f := range fs {
			arr.Elems[i] = ConcStr(f)
		}
		return SliceV{Arr: arr, Len: len(fs), Cap: len(fs)}
	}
	// ---- unicode/utf8 ----
	S["unicode/utf8.DecodeRuneInString"] = func(in *Interp, fn *ssa.Function, a []Value) Value {
		r, sz := in.decodeRune(a[0].(*StrV), 0)
		return TupleV{r, IntC(int64(sz))}
	}
	S["unicode/utf8.RuneCountInString"] = func(in *Interp, fn *ssa.Function, a []Value) Value {
		s := a[0].(*StrV)
		in.needBytes(s, "RuneCount")
		if s.IsConc() {
			return IntC(int64(utf8.RuneCountInString(s.Conc)))
		}
		n, pos := 0, 0
		for pos < s.Len() {
			_, sz := in.decodeRune(s, pos)
			pos += sz
			n++
		}
		return IntC(int64(n))
	}
	S["unicode/utf8.ValidString"] = func(in *Interp, fn *ssa.Function, a []Value) Value {
		return w.Stubs[RepoModule+".vrtValidUTF8"](in, fn, a)
	}
	S["unicode/utf8.AppendRune"] = func(in *Interp, fn *ssa.Function, a []Value) Value {
		bs := in.encodeRune(a[1].(*Term))
		vals := make([]Value, len(bs))
		for i, b := range bs {
			vals[i] = b
		}
		return in.appendOp(a[0].(SliceV), SliceV{Arr: &ArrayV{Elems: vals}, Len: len(vals), Cap: len(vals)}, types.NewSlice(types.Typ[types.Uint8]))
	}
	// unicode classes with a closed form: control characters (Cc) are exactly
	// U+0000..U+001F and U+007F..U+009F; the ASCII / Latin-1 part of the others
	// is decided, larger symbolic code points are not modelled.
	S["unicode.IsControl"] = func(in *Interp, fn *ssa.Function, a []Value) Value {
		r := a[0].(*Term)
		return Or(And(Ge(r, IntC(0)), Lt(r, IntC(0x20))), And(Ge(r, IntC(0x7f)), Lt(r, IntC(0xa0))))
	}
	latin1 := func(name string, f func(rune) bool) {
		S["unicode."+name] = func(in *Interp, fn *ssa.Function, a []Value) Value {
			r := a[0].(*Term)
			if v, ok := r.Int64Val(); ok {
				return BoolC(f(rune(v)))
			}
			if in.branch(Le(r, IntC(255))) {
				k, ok := in.concretize("unicode."+name, r, 0, 255)
				if !ok {
					in.unsupported("unicode." + name + " on a symbolic code point")
				}
				return BoolC(f(rune(k)))
			}
			// above Latin-1 the tables have no closed form: the code point is
			// narrowed to one of a battery of representatives of the general
			// categories (letters of both cases, digits, marks, spaces, symbols,
			// CJK, the replacement character, astral and last-plane code points);
			// other values of the code point are outside the claim
			in.Assumptions["unicode."+name+" above U+00FF: decided for 9 representative code points"] = true
			reps := unicodeReps
			alts := make([]*Term, len(reps))
			for i, c := range reps {
				alts[i] = Eq(r, IntC(int64(c)))
			}
			k := in.decide("unicode."+name, alts)
			if k < 0 {
				in.end("assumed", "code point outside the representative battery")
			}
			in.addPC(alts[k])
			return BoolC(f(reps[k]))
		}
	}
	latin1("IsDigit", unicode.IsDigit)
	latin1("IsLetter", unicode.IsLetter)
	latin1("IsUpper", unicode.IsUpper)
	latin1("IsLower", unicode.IsLower)
	latin1("IsPunct", unicode.IsPunct)
	S["unicode/utf8.RuneLen"] = func(in *Interp, fn *ssa.Function, a []Value) Value {
		return IntC(int64(len(in.encodeRune(a[0].(*Term)))))
	}
	// ---- strings.Builder ----
	S["(*strings.Builder).Grow"] = func(in *Interp, fn *ssa.Function, a []Value) Value {
		n := a[1].(*Term)
		if in.branch(Lt(n, IntC(0))) {
			in.goPanic("strings.Builder.Grow: negative count")
		}
		lim := in.allocLimit()
		if !in.branch(Le(n, IntC(int64(lim)))) {
			model := in.bigModel()
			in.Events = append(in.Events, Event{Kind: "cost", Msg: fmt.Sprintf("strings.Builder.Grow with size > %d (not bounded by data sizes)", lim), Where: in.where(), Model: model, Stack: in.stackNames()})
			in.end("alloc", "Grow too large")
		}
		builderBuf(in, a[0])
		return nil
	}
	S["(*strings.Builder).String"] = func(in *Interp, fn *ssa.Function, a []Value) Value {
		sl := builderBuf(in, a[0]).Load().(SliceV)
		bs := make([]*Term, sl.Len)
		for i := 0; i < sl.Len; i++ {
			bs[i] = sl.Arr.Elems[sl.Off+i].(*Term)
		}
		return StrFromBytes(bs)
	}
	S["(*strings.Builder).Len"] = func(in *Interp, fn *ssa.Function, a []Value) Value {
		return IntC(int64(builderBuf(in, a[0]).Load().(SliceV).Len))
	}
	S["(*strings.Builder).WriteByte"] = func(in *Interp, fn *ssa.Function, a []Value) Value {
		in.builderAppend(a[0], []*Term{a[1].(*Term)})
		return NilIface
	}
	S["(*strings.Builder).WriteRune"] = func(in *Interp, fn *ssa.Function, a []Value) Value {
		bs := in.encodeRune(a[1].(*Term))
		in.builderAppend(a[0], bs)
		return TupleV{IntC(int64(len(bs))), NilIface}
	}
	S["(*strings.Builder).Write"] = func(in *Interp, fn *ssa.Function, a []Value) Value {
		sl := a[1].(SliceV)
		if sl.Arr != nil && sl.Arr.Abs != nil {
			in.unsupported("strings.Builder.Write of abstract text")
		}
		bs := make([]*Term, sl.Len)
		for i := 0; i < sl.Len; i++ {
			t, ok := sl.Arr.Elems[sl.Off+i].(*Term)
			if !ok {
				in.unsupported("strings.Builder.Write of non-byte elements")
			}
			bs[i] = t
		}
		in.builderAppend(a[0], bs)
		return TupleV{IntC(int64(sl.Len)), NilIface}
	}
	S["(*strings.Builder).Reset"] = func(in *Interp, fn *ssa.Function, a []Value) Value {
		builderBuf(in, a[0]).Store(SliceV{})
		return nil
	}
	S["(*strings.Builder).Cap"] = func(in *Interp, fn *ssa.Function, a []Value) Value {
		return IntC(int64(builderBuf(in, a[0]).Load().(SliceV).Cap))
	}
	S["(*strings.Builder).WriteString"] = func(in *Interp, fn *ssa.Function, a []Value) Value {
		s := a[1].(*StrV)
		in.needBytes(s, "Builder.WriteString")
		in.builderAppend(a[0], s.Bytes())
		return TupleV{IntC(int64(s.Len())), NilIface}
	}
	// ---- strings ----
	S["strings.Index"] = func(in *Interp, fn *ssa.Function, a []Value) Value {
		return IntC(int64(in.strIndex(a[0].(*StrV), a[1].(*StrV), false)))
	}
	S["strings.LastIndex"] = func(in *Interp, fn *ssa.Function, a []Value) Value {
		return IntC(int64(in.strIndex(a[0].(*StrV), a[1].(*StrV), true)))
	}
	S["strings.IndexByte"] = func(in *Interp, fn *ssa.Function, a []Value) Value {
		return IntC(int64(in.strIndex(a[0].(*StrV), StrFromBytes([]*Term{a[1].(*Term)}), false)))
	}
	strSlice := func(in *Interp, parts []*StrV) Value {
		arr := &ArrayV{Elems: make([]Value, len(parts)), Org: in.org(), ET: in.W.TString}
		for i, p := range parts {
			arr.Elems[i] = p
		}
		return SliceV{Arr: arr, Len: len(parts), Cap: len(parts)}
	}
	splitN := func(in *Interp, s, sep *StrV, n int) Value {
		in.needBytes(s, "Split")
		in.needBytes(sep, "Split")
		if n == 0 {
			return SliceV{}
		}
		var parts []*StrV
		if sep.Len() == 0 {
			pos := 0
			for pos < s.Len() && (n < 0 || len(parts) < n-1) {
				_, sz := in.decodeRune(s, pos)
				parts = append(parts, s.Slice(pos, pos+sz))
				pos += sz
			}
			if pos < s.Len() {
				parts = append(parts, s.Slice(pos, s.Len()))
			}
			return strSlice(in, parts)
		}
		rest := s
		for n < 0 || len(parts) < n-1 {
			i := in.strIndex(rest, sep, false)
			if i < 0 {
				break
			}
			parts = append(parts, rest.Slice(0, i))
			rest = rest.Slice(i+sep.Len(), rest.Len())
		}
		parts = append(parts, rest)
		return strSlice(in, parts)
	}
	S["strings.Split"] = func(in *Interp, fn *ssa.Function, a []Value) Value {
		return splitN(in, a[0].(*StrV), a[1].(*StrV), -1)
	}
	S["strings.SplitN"] = func(in *Interp, fn *ssa.Function, a []Value) Value {
		n, ok := a[2].(*Term).Int64Val()
		if !ok {
			// symbolic count: only its relation to the (small, concrete) number of
			// possible pieces matters
			nt := a[2].(*Term)
			n = -1
			if !in.branch(Lt(nt, IntC(0))) {
				max := a[0].(*StrV).Len() + 1
				for k := 0; k <= max; k++ {
					if in.branch(Eq(nt, IntC(int64(k)))) {
						n = int64(k)
						break
					}
				}
			}
		}
		return splitN(in, a[0].(*StrV), a[1].(*StrV), int(n))
	}
	S["strings.Join"] = func(in *Interp, fn *ssa.Function, a []Value) Value {
		sl := a[0].(SliceV)
		sep := a[1].(*StrV)
		var out *StrV = ConcStr("")
		for i := 0; i < sl.Len; i++ {
			if i > 0 {
				out = in.strConcat(out, sep)
			}
			out = in.strConcat(out, sl.Arr.Elems[sl.Off+i].(*StrV))
		}
		return out
	}
	S["strings.Contains"] = func(in *Interp, fn *ssa.Function, a []Value) Value {
		s, sub := a[0].(*StrV), a[1].(*StrV)
		in.needBytes(s, "Contains")
		in.needBytes(sub, "Contains")
		var ms []*Term
		for i := 0; i+sub.Len() <= s.Len(); i++ {
			ms = append(ms, matchAt(s, sub, i))
		}
		return Or(ms...)
	}
	S["strings.HasPrefix"] = func(in *Interp, fn *ssa.Function, a []Value) Value {
		s, p := a[0].(*StrV), a[1].(*StrV)
		in.needBytes(s, "HasPrefix")
		in.needBytes(p, "HasPrefix")
		if p.Len() > s.Len() {
			return False
		}
		return matchAt(s, p, 0)
	}
	S["strings.HasSuffix"] = func(in *Interp, fn *ssa.Function, a []Value) Value {
		s, p := a[0].(*StrV), a[1].(*StrV)
		in.needBytes(s, "HasSuffix")
		in.needBytes(p, "HasSuffix")
		if p.Len() > s.Len() {
			return False
		}
		return matchAt(s, p, s.Len()-p.Len())
	}
	S["strings.Compare"] = func(in *Interp, fn *ssa.Function, a []Value) Value {
		x, y := a[0].(*StrV), a[1].(*StrV)
		return Ite(in.strEq(x, y), IntC(0), Ite(in.strLess(x, y, false), IntC(-1), IntC(1)))
	}
	S["strings.Count"] = func(in *Interp, fn *ssa.Function, a []Value) Value {
		s, sub := a[0].(*StrV), a[1].(*StrV)
		in.needBytes(s, "Count")
		in.needBytes(sub, "Count")
		if s.IsConc() && sub.IsConc() {
			return IntC(int64(strings.Count(s.Conc, sub.Conc)))
		}
		if sub.Len() == 0 {
			n, pos := 0, 0
			for pos < s.Len() {
				_, sz := in.decodeRune(s, pos)
				pos += sz
				n++
			}
			return IntC(int64(n + 1))
		}
		n := 0
		for {
			i := in.strIndex(s, sub, false)
			if i < 0 {
				return IntC(int64(n))
			}
			n++
			s = s.Slice(i+sub.Len(), s.Len())
		}
	}
	replace := func(in *Interp, s, old, nw *StrV, n *Term) Value {
		in.needBytes(s, "Replace")
		in.needBytes(old, "Replace")
		in.needBytes(nw, "Replace")
		if s.IsConc() && old.IsConc() && nw.IsConc() {
			if c, ok := n.Int64Val(); ok {
				return ConcStr(strings.Replace(s.Conc, old.Conc, nw.Conc, int(c)))
			}
		}
		// number of replacements is bounded by len(s)+1; decide n within that
		maxRep := s.Len() + 1
		limit := maxRep
		if in.branch(Lt(n, IntC(0))) {
			limit = maxRep
		} else {
			k, ok := in.concretize("replacen", n, 0, maxRep)
			if ok {
				limit = k
			}
		}
		var out []*Term
		rest := s
		done := 0
		if old.Len() == 0 {
			// matches before each rune and at the end
			pos := 0
			for done < limit {
				out = append(out, nw.Bytes()...)
				done++
				if pos >= s.Len() {
					break
				}
				_, sz := in.decodeRune(s, pos)
				out = append(out, s.Bytes()[pos:pos+sz]...)
				pos += sz
			}
			out = append(out, s.Bytes()[pos:]...)
			return StrFromBytes(out)
		}
		for done < limit {
			i := in.strIndex(rest, old, false)
			if i < 0 {
				break
			}
			out = append(out, rest.Bytes()[:i]...)
			out = append(out, nw.Bytes()...)
			rest = rest.Slice(i+old.Len(), rest.Len())
			done++
		}
		out = append(out, rest.Bytes()...)
		return StrFromBytes(out)
	}
	S["strings.Replace"] = func(in *Interp, fn *ssa.Function, a []Value) Value {
		return replace(in, a[0].(*StrV), a[1].(*StrV), a[2].(*StrV), a[3].(*Term))
	}
	S["strings.ReplaceAll"] = func(in *Interp, fn *ssa.Function, a []Value) Value {
		return replace(in, a[0].(*StrV), a[1].(*StrV), a[2].(*StrV), IntC(-1))
	}
	caseMap := func(upper bool) StubFn {
		return func(in *Interp, fn *ssa.Function, a []Value) Value {
			s := a[0].(*StrV)
			in.needBytes(s, "case mapping")
			if s.IsConc() {
				if upper {
					return ConcStr(strings.ToUpper(s.Conc))
				}
				return ConcStr(strings.ToLower(s.Conc))
			}
			if in.hasNonASCII(s) {
				in.unsupported("case mapping of symbolic non-ASCII text")
			}
			out := make([]*Term, s.Len())
			for i := range out {
				b := s.Byte(i)
				if upper {
					out[i] = Ite(And(Ge(b, IntC('a')), Le(b, IntC('z'))), Sub(b, IntC(32)), b)
				} else {
					out[i] = Ite(And(Ge(b, IntC('A')), Le(b, IntC('Z'))), Add(b, IntC(32)), b)
				}
			}
			return StrFromBytes(out)
		}
	}
	S["strings.ToLower"] = caseMap(false)
	S["strings.ToUpper"] = caseMap(true)
	trimSpace := func(left, right bool) StubFn {
		return func(in *Interp, fn *ssa.Function, a []Value) Value {
			s := a[0].(*StrV)
			in.needBytes(s, "trim")
			if s.IsConc() {
				switch {
				case left && right:
					return ConcStr(strings.TrimSpace(s.Conc))
				case left:
					return ConcStr(strings.TrimLeftFunc(s.Conc, unicode.IsSpace))
				}
				return ConcStr(strings.TrimRightFunc(s.Conc, unicode.IsSpace))
			}
			if in.hasNonASCII(s) {
				in.unsupported("whitespace trimming of symbolic non-ASCII text")
			}
			return in.trimModel(s, left, right, in.isSpaceASCII)
		}
	}
	S["strings.TrimSpace"] = trimSpace(true, true)
	trimFunc := func(left bool) StubFn {
		return func(in *Interp, fn *ssa.Function, a []Value) Value {
			f := a[1].(*FuncV)
			if f == nil || f.Fn == nil || f.Fn.String() != "unicode.IsSpace" {
				in.unsupported("TrimFunc with unknown predicate")
			}
			return trimSpace(left, !left)(in, fn, a[:1])
		}
	}
	S["strings.TrimLeftFunc"] = trimFunc(true)
	S["strings.TrimRightFunc"] = trimFunc(false)
	trimSet := func(left, right bool) StubFn {
		return func(in *Interp, fn *ssa.Function, a []Value) Value {
			s, cut := a[0].(*StrV), a[1].(*StrV)
			in.needBytes(s, "trim")
			in.needBytes(cut, "trim")
			if s.IsConc() && cut.IsConc() {
				switch {
				case left && right:
					return ConcStr(strings.Trim(s.Conc, cut.Conc))
				case left:
					return ConcStr(strings.TrimLeft(s.Conc, cut.Conc))
				}
				return ConcStr(strings.TrimRight(s.Conc, cut.Conc))
			}
			if in.hasNonASCII(s) || in.hasNonASCII(cut) {
				in.unsupported("cut-set trimming of symbolic non-ASCII text")
			}
			return in.trimModel(s, left, right, func(b *Term) *Term {
				var cs []*Term
				for i := 0; i < cut.Len(); i++ {
					cs = append(cs, Eq(b, cut.Byte(i)))
				}
				return Or(cs...)
			})
		}
	}
	S["strings.Trim"] = trimSet(true, true)
	S["strings.TrimLeft"] = trimSet(true, false)
	S["strings.TrimRight"] = trimSet(false, true)
	// ---- strconv ----
	S["strconv.Atoi"] = func(in *Interp, fn *ssa.Function, a []Value) Value {
		s, ok := in.concStr(a[0])
		if !ok {
			// symbolic digits (short): value by positional arithmetic
			sv := a[0].(*StrV)
			in.needBytes(sv, "Atoi")
			n := sv.Len()
			if n == 0 || n > 17 {
				in.unsupported("Atoi on long symbolic text")
			}
			i := 0
			neg := false
			if in.branch(Eq(sv.Byte(0), IntC('-'))) {
				neg, i = true, 1
			} else if in.branch(Eq(sv.Byte(0), IntC('+'))) {
				i = 1
			}
			if i >= n {
				return TupleV{IntC(0), in.nativeErr(strconv.ErrSyntax)}
			}
			v := IntC(0)
			for ; i < n; i++ {
				b := sv.Byte(i)
				if !in.branch(And(Ge(b, IntC('0')), Le(b, IntC('9')))) {
					return TupleV{IntC(0), in.nativeErr(strconv.ErrSyntax)}
				}
				v = Add(Mul(v, IntC(10)), Sub(b, IntC('0')))
			}
			if neg {
				v = Neg(v)
			}
			return TupleV{v, NilIface}
		}
		key := s
		neg := false
		if strings.HasPrefix(key, "-") {
			key, neg = key[1:], true
		}
		if t, ok := in.magicInts[key]; ok {
			if neg {
				in.unsupported("negated magic integer")
			}
			return TupleV{t, NilIface}
		}
		v, err := strconv.Atoi(s)
		return TupleV{IntC(int64(v)), in.nativeErr(err)}
	}
	// ParseInt / ParseUint: concrete text natively; short symbolic text by
	// positional arithmetic in the given base (sign, digits, range of bitSize).
	parseInt := func(signed bool) StubFn {
		return func(in *Interp, fn *ssa.Function, a []Value) Value {
			base := cint(in, a[1])
			bits := cint(in, a[2])
			if s, ok := in.concStr(a[0]); ok {
				if signed {
					v, err := strconv.ParseInt(s, base, bits)
					return TupleV{IntC(v), in.nativeErr(err)}
				}
				v, err := strconv.ParseUint(s, base, bits)
				return TupleV{BigC(new(big.Int).SetUint64(v)), in.nativeErr(err)}
			}
			sv := a[0].(*StrV)
			in.needBytes(sv, "ParseInt")
			n := sv.Len()
			if base < 2 || base > 16 || n > 15 {
				in.unsupported("ParseInt on symbolic text with this base / length")
			}
			if bits == 0 {
				bits = 64
			}
			if n == 0 {
				return TupleV{IntC(0), in.nativeErr(strconv.ErrSyntax)}
			}
			i := 0
			neg := false
			if signed {
				if in.branch(Eq(sv.Byte(0), IntC('-'))) {
					neg, i = true, 1
				} else if in.branch(Eq(sv.Byte(0), IntC('+'))) {
					i = 1
				}
			}
			if i >= n {
				return TupleV{IntC(0), in.nativeErr(strconv.ErrSyntax)}
			}
			v := IntC(0)
			for ; i < n; i++ {
				b := sv.Byte(i)
				var d *Term
				switch {
				case in.branch(And(Ge(b, IntC('0')), Le(b, IntC('9')))):
					d = Sub(b, IntC('0'))
				case base > 10 && in.branch(And(Ge(b, IntC('a')), Le(b, IntC('z')))):
					d = Sub(b, IntC('a'-10))
				case base > 10 && in.branch(And(Ge(b, IntC('A')), Le(b, IntC('Z')))):
					d = Sub(b, IntC('A'-10))
				default:
					return TupleV{IntC(0), in.nativeErr(strconv.ErrSyntax)}
				}
				if !in.branch(Lt(d, IntC(int64(base)))) {
					return TupleV{IntC(0), in.nativeErr(strconv.ErrSyntax)}
				}
				v = Add(Mul(v, IntC(int64(base))), d)
			}
			if neg {
				v = Neg(v)
			}
			lim := new(big.Int).Lsh(big.NewInt(1), uint(bits))
			if signed {
				lim.Rsh(lim, 1)
				if !in.branch(And(Lt(v, BigC(lim)), Ge(v, Neg(BigC(lim))))) {
					return TupleV{IntC(0), in.nativeErr(strconv.ErrRange)}
				}
			} else if !in.branch(Lt(v, BigC(lim))) {
				return TupleV{IntC(0), in.nativeErr(strconv.ErrRange)}
			}
			return TupleV{v, NilIface}
		}
	}
	S["strconv.ParseInt"] = parseInt(true)
	S["strconv.ParseUint"] = parseInt(false)
	S["strconv.ParseFloat"] = func(in *Interp, fn *ssa.Function, a []Value) Value {
		s, ok := in.concStr(a[0])
		if !ok {
			in.unsupported("ParseFloat on symbolic text")
		}
		bits := cint(in, a[1])
		v, err := strconv.ParseFloat(s, bits)
		return TupleV{FloatFromGo(v, 64), in.nativeErr(err)}
	}
	S["strconv.FormatFloat"] = func(in *Interp, fn *ssa.Function, a []Value) Value {
		f, ok := a[0].(*FloatV)
		if !ok {
			in.unsupported("FormatFloat argument")
		}
		g, ok := f.GoFloat()
		if !ok {
			return in.opaqueStr()
		}
		c, ok1 := a[1].(*Term).IntVal()
		pr, ok2 := a[2].(*Term).IntVal()
		bs, ok3 := a[3].(*Term).IntVal()
		if !ok1 || !ok2 || !ok3 {
			return in.opaqueStr()
		}
		return ConcStr(strconv.FormatFloat(g, byte(c.Int64()), int(pr.Int64()), int(bs.Int64())))
	}
	strOut := func(f func(in *Interp, a []Value) (string, bool)) StubFn {
		return func(in *Interp, fn *ssa.Function, a []Value) Value {
			s, ok := f(in, a)
			if !ok {
				return in.opaqueStr()
			}
			return ConcStr(s)
		}
	}
	S["strconv.Quote"] = strOut(func(in *Interp, a []Value) (string, bool) {
		s, ok := in.concStr(a[0])
		return strconv.Quote(s), ok
	})
	S["strconv.QuoteRune"] = strOut(func(in *Interp, a []Value) (string, bool) {
		r, ok := a[0].(*Term).Int64Val()
		return strconv.QuoteRune(rune(r)), ok
	})
	S["strconv.Itoa"] = strOut(func(in *Interp, a []Value) (string, bool) {
		r, ok := a[0].(*Term).Int64Val()
		return strconv.Itoa(int(r)), ok
	})
	S["strconv.FormatBool"] = strOut(func(in *Interp, a []Value) (string, bool) {
		r, ok := a[0].(*Term).BoolVal()
		return strconv.FormatBool(r), ok
	})
	S["strconv.FormatInt"] = strOut(func(in *Interp, a []Value) (string, bool) {
		r, ok := a[0].(*Term).Int64Val()
		b, ok2 := a[1].(*Term).Int64Val()
		if !ok || !ok2 {
			return "", false
		}
		return strconv.FormatInt(r, int(b)), true
	})
	S["strconv.FormatUint"] = strOut(func(in *Interp, a []Value) (string, bool) {
		r, ok := a[0].(*Term).IntVal()
		b, ok2 := a[1].(*Term).Int64Val()
		if !ok || !ok2 {
			return "", false
		}
		return strconv.FormatUint(r.Uint64(), int(b)), true
	})
	// ---- math / bits ----
	S["math/bits.Len"] = func(in *Interp, fn *ssa.Function, a []Value) Value {
		v, ok := a[0].(*Term).IntVal()
		if !ok {
			in.unsupported("bits.Len symbolic")
		}
		return IntC(int64(bits.Len64(v.Uint64())))
	}
	fl1 := func(native func(float64) float64, sym func(in *Interp, f *FloatV) *FloatV) StubFn {
		return func(in *Interp, fn *ssa.Function, a []Value) Value {
			f := a[0].(*FloatV)
			if g, ok := f.GoFloat(); ok {
				return FloatFromGo(native(g), 64)
			}
			if f.Cls != FFinite {
				return f
			}
			return sym(in, f)
		}
	}
	S["math.Abs"] = fl1(math.Abs, func(in *Interp, f *FloatV) *FloatV {
		return &FloatV{Cls: FFinite, Val: Ite(Lt(f.Val, RealOfInt(0)), Neg(f.Val), f.Val), Bits: 64, Lossy: f.Lossy}
	})
	S["math.Floor"] = fl1(math.Floor, func(in *Interp, f *FloatV) *FloatV {
		return &FloatV{Cls: FFinite, Val: ToReal(ToIntFloor(f.Val)), Bits: 64, Lossy: f.Lossy}
	})
	S["math.Ceil"] = fl1(math.Ceil, func(in *Interp, f *FloatV) *FloatV {
		return &FloatV{Cls: FFinite, Val: Neg(ToReal(ToIntFloor(Neg(f.Val)))), Bits: 64, Lossy: f.Lossy}
	})
	S["math.Trunc"] = fl1(math.Trunc, func(in *Interp, f *FloatV) *FloatV {
		return &FloatV{Cls: FFinite, Val: truncReal(f.Val), Bits: 64, Lossy: f.Lossy}
	})
	S["math.Round"] = fl1(math.Round, func(in *Interp, f *FloatV) *FloatV {
		half := RatC(big.NewRat(1, 2))
		v := Ite(Ge(f.Val, RealOfInt(0)), ToReal(ToIntFloor(Add(f.Val, half))), Neg(ToReal(ToIntFloor(Add(Neg(f.Val), half)))))
		return &FloatV{Cls: FFinite, Val: v, Bits: 64, Lossy: f.Lossy}
	})
	fl2 := func(native func(a, b float64) float64, sym func(in *Interp, x, y *FloatV) Value) StubFn {
		return func(in *Interp, fn *ssa.Function, a []Value) Value {
			x, y := a[0].(*FloatV), a[1].(*FloatV)
			if gx, ok := x.GoFloat(); ok {
				if gy, ok := y.GoFloat(); ok {
					return FloatFromGo(native(gx, gy), 64)
				}
			}
			return sym(in, x, y)
		}
	}
	S["math.Max"] = fl2(math.Max, func(in *Interp, x, y *FloatV) Value {
		if x.Cls != FFinite || y.Cls != FFinite {
			in.unsupported("math.Max on symbolic non-finite")
		}
		return &FloatV{Cls: FFinite, Val: Ite(Ge(x.Val, y.Val), x.Val, y.Val), Bits: 64, Lossy: x.Lossy || y.Lossy}
	})
	S["math.Min"] = fl2(math.Min, func(in *Interp, x, y *FloatV) Value {
		if x.Cls != FFinite || y.Cls != FFinite {
			in.unsupported("math.Min on symbolic non-finite")
		}
		return &FloatV{Cls: FFinite, Val: Ite(Le(x.Val, y.Val), x.Val, y.Val), Bits: 64, Lossy: x.Lossy || y.Lossy}
	})
	S["math.Pow"] = fl2(math.Pow, func(in *Interp, x, y *FloatV) Value {
		in.unsupported("math.Pow on symbolic values")
		return nil
	})
	S["math.Sqrt"] = fl1(math.Sqrt, func(in *Interp, f *FloatV) *FloatV {
		in.unsupported("math.Sqrt on symbolic value")
		return nil
	})
	S["math.Signbit"] = func(in *Interp, fn *ssa.Function, a []Value) Value {
		f := a[0].(*FloatV)
		switch f.Cls {
		case FNegInf:
			return True
		case FPosInf, FNaN:
			return False
		}
		return Or(Lt(f.Val, RealOfInt(0)), And(isZeroT(f.Val), BoolC(f.NegZ)))
	}
	S["math.Inf"] = func(in *Interp, fn *ssa.Function, a []Value) Value {
		if in.branch(Ge(a[0].(*Term), IntC(0))) {
			return &FloatV{Cls: FPosInf, Bits: 64}
		}
		return &FloatV{Cls: FNegInf, Bits: 64}
	}
	S["math.NaN"] = func(in *Interp, fn *ssa.Function, a []Value) Value { return &FloatV{Cls: FNaN, Bits: 64} }
	S["math.IsNaN"] = func(in *Interp, fn *ssa.Function, a []Value) Value {
		return BoolC(a[0].(*FloatV).Cls == FNaN)
	}
	S["math.IsInf"] = func(in *Interp, fn *ssa.Function, a []Value) Value {
		f := a[0].(*FloatV)
		sg := a[1].(*Term)
		pos := BoolC(f.Cls == FPosInf)
		neg := BoolC(f.Cls == FNegInf)
		return Or(And(Ge(sg, IntC(0)), pos), And(Le(sg, IntC(0)), neg))
	}
	S["math.Mod"] = func(in *Interp, fn *ssa.Function, a []Value) Value {
		x, y := a[0].(*FloatV), a[1].(*FloatV)
		if gx, ok := x.GoFloat(); ok {
			if gy, ok := y.GoFloat(); ok {
				return FloatFromGo(math.Mod(gx, gy), 64)
			}
		}
		if x.Cls == FNaN || y.Cls == FNaN || x.Cls != FFinite {
			return &FloatV{Cls: FNaN, Bits: 64}
		}
		if y.Cls != FFinite {
			return x
		}
		if in.branch(isZeroT(y.Val)) {
			return &FloatV{Cls: FNaN, Bits: 64}
		}
		q := truncReal(RDiv(x.Val, y.Val))
		return &FloatV{Cls: FFinite, Val: Sub(x.Val, Mul(q, y.Val)), Bits: 64, Lossy: x.Lossy || y.Lossy}
	}
	// ---- errors ----
	S["errors.Is"] = func(in *Interp, fn *ssa.Function, a []Value) Value {
		return in.errorsIs(in.force(a[0]), in.force(a[1]))
	}
	// ---- fmt.Errorf ----
	// The message is opaque text; what matters to callers is the chain: with a
	// %w verb the result is a *fmt.wrapError whose Unwrap returns the wrapped
	// error (the first error-typed operand), otherwise an opaque native error.
	S["fmt.Errorf"] = func(in *Interp, fn *ssa.Function, a []Value) Value {
		format, ok := in.concStr(a[0])
		if !ok {
			in.unsupported("fmt.Errorf with a symbolic format")
		}
		args, _ := a[1].(SliceV)
		if strings.Contains(format, "%w") {
			wt := in.W.LookupType("fmt", "wrapError")
			if wt == nil {
				in.unsupported("fmt.wrapError not loaded")
			}
			for i := 0; i < args.Len; i++ {
				v := in.force(args.Arr.Elems[args.Off+i])
				if v.T == nil || in.findMethod(v.T, "Error") == nil {
					continue
				}
				sv := zeroValue(wt, in.org()).(*StructV)
				sv.Fields[0] = in.opaqueStr()
				sv.Fields[1] = v
				cell := &Cell{V: sv, Org: in.org(), Nm: "fmt.wrapError"}
				return IfaceV{T: types.NewPointer(wt), V: PtrV{cell}}
			}
		}
		return in.nativeErr(errors.New("formatted error"))
	}
	S["(*fmt.wrapError).Unwrap"] = func(in *Interp, fn *ssa.Function, a []Value) Value {
		p := a[0].(PtrV)
		return p.R.Load().(*StructV).Fields[1]
	}
	S["(*fmt.wrapError).Error"] = func(in *Interp, fn *ssa.Function, a []Value) Value {
		p := a[0].(PtrV)
		return p.R.Load().(*StructV).Fields[0]
	}
	// ---- reflect ----
	S["reflect.TypeOf"] = func(in *Interp, fn *ssa.Function, a []Value) Value {
		rt := types.NewPointer(in.W.LookupType("reflect", "rtype"))
		arg := a[0]
		if lz, ok := arg.(*LazyV); ok {
			if in.lazyIsNil(lz) {
				return NilIface
			}
			arg = in.force(lz) // decide the dynamic type: type identity is observable
		}
		switch x := arg.(type) {
		case *LazyV:
			if x.Res != nil {
				return IfaceV{T: rt, V: &NativeV{Kind: "rtype", V: x.Res.T}}
			}
			return IfaceV{T: rt, V: &NativeV{Kind: "rtype", V: x}}
		case IfaceV:
			if x.T == nil {
				return NilIface
			}
			return IfaceV{T: rt, V: &NativeV{Kind: "rtype", V: x.T}}
		}
		in.unsupported("reflect.TypeOf argument")
		return nil
	}
	// ---- encoding/json ----
	S["(encoding/json.Number).String"] = func(in *Interp, fn *ssa.Function, a []Value) Value {
		return a[0]
	}
	S["(encoding/json.Number).Int64"] = func(in *Interp, fn *ssa.Function, a []Value) Value {
		s := a[0].(*StrV)
		if s.Num != nil {
			nt := s.Num
			lo, hi := typeRange(64, true)
			if nt.Form == NFInt && in.branch(And(Ge(nt.K, BigC(lo)), Le(nt.K, BigC(hi)))) {
				return TupleV{nt.K, NilIface}
			}
			return TupleV{IntC(0), in.nativeErr(strconv.ErrSyntax)}
		}
		c, ok := in.concStr(s)
		if !ok {
			in.unsupported("json.Number.Int64 on symbolic bytes")
		}
		v, err := json.Number(c).Int64()
		return TupleV{IntC(v), in.nativeErr(err)}
	}
	S["(encoding/json.Number).Float64"] = func(in *Interp, fn *ssa.Function, a []Value) Value {
		s := a[0].(*StrV)
		if s.Num != nil {
			nt := s.Num
			if nt.Form == NFBad {
				return TupleV{FloatFromGo(0, 64), in.nativeErr(strconv.ErrSyntax)}
			}
			return TupleV{in.roundToFloat(nt), NilIface}
		}
		c, ok := in.concStr(s)
		if !ok {
			in.unsupported("json.Number.Float64 on symbolic bytes")
		}
		v, err := json.Number(c).Float64()
		return TupleV{FloatFromGo(v, 64), in.nativeErr(err)}
	}
	S["encoding/json.Unmarshal"] = func(in *Interp, fn *ssa.Function, a []Value) Value {
		data, ok := in.concBytes(a[0])
		if !ok {
			// symbolic bytes: only JSON strings are modelled
			target := in.force(a[1])
			et := target.T.(*types.Pointer).Elem()
			sl := a[0].(SliceV)
			if sl.Arr == nil || sl.Arr.Abs != nil || !types.Identical(et, in.W.TString) {
				in.unsupported("json.Unmarshal of symbolic bytes (non-string target)")
			}
			bs := make([]*Term, sl.Len)
			for i := range bs {
				bs[i] = sl.Arr.Elems[sl.Off+i].(*Term)
			}
			out, ok := in.jsonDecodeString(bs)
			if !ok {
				return in.nativeErr(errors.New("invalid character in string literal"))
			}
			in.store(target.V.(PtrV).R, StrFromBytes(out))
			return NilIface
		}
		target := in.force(a[1])
		p := target.V.(PtrV)
		et := target.T.(*types.Pointer).Elem()
		switch {
		case types.Identical(et, in.W.TString):
			var s string
			err := json.Unmarshal(data, &s)
			if err == nil {
				in.store(p.R, ConcStr(s))
			}
			return in.nativeErr(err)
		case types.Identical(et, in.W.TJNum):
			var n json.Number
			err := json.Unmarshal(data, &n)
			if err == nil {
				in.store(p.R, ConcStr(string(n)))
			}
			return in.nativeErr(err)
		}
		in.unsupported("json.Unmarshal target type " + et.String())
		return nil
	}
	S["encoding/json.NewDecoder"] = func(in *Interp, fn *ssa.Function, a []Value) Value {
		r := in.force(a[0])
		rp, ok := r.V.(PtrV)
		if !ok {
			in.unsupported("json.NewDecoder reader")
		}
		rs := rp.R.Load().(*StructV)
		src, ok := in.concStr(rs.Fields[0])
		if !ok {
			sv, isStr := rs.Fields[0].(*StrV)
			if !isStr || sv.Sym == nil {
				in.unsupported("json decoder over abstract text")
			}
			return PtrV{&Cell{V: &NativeV{Kind: "symjsondecoder", V: &symJSONDecoder{src: sv}}, Org: in.org()}}
		}
		d := json.NewDecoder(strings.NewReader(src))
		return PtrV{&Cell{V: &NativeV{Kind: "jsondecoder", V: d}, Org: in.org()}}
	}
	decOf := func(in *Interp, v Value) *json.Decoder {
		d, ok := v.(PtrV).R.Load().(*NativeV).V.(*json.Decoder)
		if !ok {
			in.unsupported("operation on a symbolic JSON decoder")
		}
		return d
	}
	symDec := func(v Value) *symJSONDecoder {
		d, _ := v.(PtrV).R.Load().(*NativeV).V.(*symJSONDecoder)
		return d
	}
	S["(*encoding/json.Decoder).UseNumber"] = func(in *Interp, fn *ssa.Function, a []Value) Value {
		if sd := symDec(a[0]); sd != nil {
			sd.useNumber = true
			return nil
		}
		decOf(in, a[0]).UseNumber()
		return nil
	}
	S["(*encoding/json.Decoder).Decode"] = func(in *Interp, fn *ssa.Function, a []Value) Value {
		target := in.force(a[1])
		if sd := symDec(a[0]); sd != nil {
			if sd.done {
				return in.nativeErr(io.EOF)
			}
			sd.done = true
			// only JSON string texts are modelled symbolically
			bs := sd.src.Bytes()
			i := 0
			for i < len(bs) && in.branch(Or(Eq(bs[i], IntC(' ')), Eq(bs[i], IntC('\t')), Eq(bs[i], IntC('\n')), Eq(bs[i], IntC('\r')))) {
				i++
			}
			if i >= len(bs) {
				return in.nativeErr(io.EOF)
			}
			if !in.branch(Eq(bs[i], IntC('"'))) {
				in.unsupported("symbolic JSON text that is not a string")
			}
			out, ok := in.jsonDecodeString(bs)
			if !ok {
				return in.nativeErr(errors.New("invalid JSON string"))
			}
			in.store(target.V.(PtrV).R, IfaceV{T: in.W.TString, V: StrFromBytes(out)})
			return NilIface
		}
		var v interface{}
		err := decOf(in, a[0]).Decode(&v)
		if err == nil {
			in.store(target.V.(PtrV).R, in.fromNativeJSON(v))
		}
		return in.nativeErr(err)
	}
	S["(*encoding/json.Decoder).More"] = func(in *Interp, fn *ssa.Function, a []Value) Value {
		return BoolC(decOf(in, a[0]).More())
	}
	S["(*encoding/json.Decoder).InputOffset"] = func(in *Interp, fn *ssa.Function, a []Value) Value {
		return IntC(decOf(in, a[0]).InputOffset())
	}
	S["(*encoding/json.Decoder).Token"] = func(in *Interp, fn *ssa.Function, a []Value) Value {
		if sd := symDec(a[0]); sd != nil {
			// the modelled string decode consumes the whole text
			return TupleV{NilIface, in.nativeErr(io.EOF)}
		}
		_, err := decOf(in, a[0]).Token()
		// the token value itself is never used by the code under test
		return TupleV{NilIface, in.nativeErr(err)}
	}
	S["encoding/json.Marshal"] = func(in *Interp, fn *ssa.Function, a []Value) Value {
		bt := types.NewSlice(types.Typ[types.Uint8])
		if nv, ok := toNativeJSON(in, a[0]); ok {
			out, err := json.Marshal(nv)
			if err != nil {
				return TupleV{zeroValue(bt, in.org()), in.nativeErr(err)}
			}
			return TupleV{in.convert(ConcStr(string(out)), in.W.TString, bt), NilIface}
		}
		// force lazies so that failure causes are visible
		in.forceDeep(a[0])
		if marshalMayFail(in, a[0]) {
			return TupleV{zeroValue(bt, in.org()), in.nativeErr(errors.New("json: unsupported value"))}
		}
		arr := &ArrayV{Abs: in.opaqueStr(), Org: in.org()}
		return TupleV{SliceV{Arr: arr}, NilIface}
	}
	// ---- decimal128 ----
	D := "github.com/woodsbury/decimal128."
	DM := "(github.com/woodsbury/decimal128.Decimal)."
	S[D+"Parse"] = func(in *Interp, fn *ssa.Function, a []Value) Value {
		s := a[0].(*StrV)
		if s.Num != nil {
			if s.Num.Form == NFBad {
				return TupleV{decFinite(RealOfInt(0)), in.nativeErr(strconv.ErrSyntax)}
			}
			return TupleV{withExp(decFinite(numTextValue(s.Num)), numTextExp(s.Num)), NilIface}
		}
		c, ok := in.concStr(s)
		if !ok {
			in.unsupported("decimal128.Parse of symbolic bytes")
		}
		d, err := decimal128.Parse(c)
		return TupleV{decFromNativeExact(d), in.nativeErr(err)}
	}
	S[D+"New"] = func(in *Interp, fn *ssa.Function, a []Value) Value {
		// sig * 10^exp with a concrete exponent (the encoding's scale is not part of the abstraction)
		e := cint(in, a[1])
		if e > 40 || e < -40 {
			in.unsupported("decimal128.New with a large exponent")
		}
		p := new(big.Rat).SetInt(new(big.Int).Exp(big.NewInt(10), big.NewInt(int64(abs(e))), nil))
		if e < 0 {
			p.Inv(p)
		}
		return withExp(decFinite(Mul(ToReal(a[0].(*Term)), RatC(p))), expOf(e))
	}
	S["(*github.com/woodsbury/decimal128.Decimal).UnmarshalJSON"] = func(in *Interp, fn *ssa.Function, a []Value) Value {
		p := a[0].(PtrV)
		sl := a[1].(SliceV)
		if sl.Arr != nil && sl.Arr.Abs != nil {
			s := sl.Arr.Abs
			if s.Num != nil && s.Num.Form != NFBad {
				in.store(p.R, withExp(decFinite(numTextValue(s.Num)), numTextExp(s.Num)))
				return NilIface
			}
			in.unsupported("Decimal.UnmarshalJSON of abstract text")
		}
		data, ok := in.concBytes(sl)
		if !ok {
			in.unsupported("Decimal.UnmarshalJSON of symbolic bytes")
		}
		var d decimal128.Decimal
		err := d.UnmarshalJSON(data)
		if err == nil {
			if string(data) == "null" || len(data) == 0 {
				return NilIface // receiver left unchanged
			}
			in.store(p.R, decFromNativeExact(d))
		}
		return in.nativeErr(err)
	}
	fromInt := func(in *Interp, fn *ssa.Function, a []Value) Value {
		return withExp(decFinite(ToReal(a[0].(*Term))), expOf(0))
	}
	S[D+"FromInt32"], S[D+"FromInt64"], S[D+"FromUint32"], S[D+"FromUint64"] = fromInt, fromInt, fromInt, fromInt
	fromFloat := func(in *Interp, fn *ssa.Function, a []Value) Value {
		return in.floatToDec(a[0].(*FloatV))
	}
	S[D+"FromFloat32"], S[D+"FromFloat64"] = fromFloat, fromFloat
	// exponent of an exact sum / product (harness bounds keep results within 34 digits)
	expRule := func(r Value, x, y *DecV, mul bool) Value {
		d, ok := r.(*DecV)
		if !ok || d.Cls != DFinite || x.Exp == nil || y.Exp == nil {
			return r
		}
		c := *d
		if mul {
			c.Exp = expOf(*x.Exp + *y.Exp)
		} else if *x.Exp < *y.Exp {
			c.Exp = expOf(*x.Exp)
		} else {
			c.Exp = expOf(*y.Exp)
		}
		return &c
	}
	S[DM+"Add"] = func(in *Interp, fn *ssa.Function, a []Value) Value {
		x, y := in.toDec(a[0]), in.toDec(a[1])
		return expRule(in.decAdd(x, y, false), x, y, false)
	}
	S[DM+"Sub"] = func(in *Interp, fn *ssa.Function, a []Value) Value {
		x, y := in.toDec(a[0]), in.toDec(a[1])
		return expRule(in.decAdd(x, y, true), x, y, false)
	}
	S[DM+"Mul"] = func(in *Interp, fn *ssa.Function, a []Value) Value {
		x, y := in.toDec(a[0]), in.toDec(a[1])
		return expRule(in.decMul(x, y), x, y, true)
	}
	S[DM+"Quo"] = func(in *Interp, fn *ssa.Function, a []Value) Value {
		return in.decQuo(in.toDec(a[0]), in.toDec(a[1]))
	}
	S[DM+"QuoRem"] = func(in *Interp, fn *ssa.Function, a []Value) Value {
		q, r := in.decQuoRem(in.toDec(a[0]), in.toDec(a[1]))
		return TupleV{q, r}
	}
	S[DM+"Neg"] = func(in *Interp, fn *ssa.Function, a []Value) Value {
		d := in.toDec(a[0])
		switch d.Cls {
		case DNaN:
			return d
		case DPosInf:
			return &DecV{Cls: DNegInf}
		case DNegInf:
			return &DecV{Cls: DPosInf}
		}
		return &DecV{Cls: DFinite, Val: Neg(d.Val), Lossy: d.Lossy, NegZ: !d.NegZ, Exp: d.Exp}
	}
	S[D+"Abs"] = func(in *Interp, fn *ssa.Function, a []Value) Value {
		d := in.toDec(a[0])
		switch d.Cls {
		case DNaN:
			return d
		case DPosInf, DNegInf:
			return &DecV{Cls: DPosInf}
		}
		return &DecV{Cls: DFinite, Val: Ite(Lt(d.Val, RealOfInt(0)), Neg(d.Val), d.Val), Lossy: d.Lossy, Exp: d.Exp}
	}
	S[D+"Floor"] = func(in *Interp, fn *ssa.Function, a []Value) Value {
		d := in.toDec(a[0])
		if n, ok := decNative(d); ok {
			return decFromNative(decimal128.Floor(n))
		}
		if d.Cls != DFinite {
			return d
		}
		return &DecV{Cls: DFinite, Val: ToReal(ToIntFloor(d.Val)), Lossy: d.Lossy}
	}
	S[D+"Trunc"] = func(in *Interp, fn *ssa.Function, a []Value) Value {
		d := in.toDec(a[0])
		if n, ok := decNative(d); ok {
			return decFromNative(decimal128.Trunc(n))
		}
		if d.Cls != DFinite {
			return d
		}
		return &DecV{Cls: DFinite, Val: truncReal(d.Val), Lossy: d.Lossy}
	}
	S[D+"Round"] = func(in *Interp, fn *ssa.Function, a []Value) Value {
		d := in.toDec(a[0])
		if n, ok := decNative(d); ok {
			return decFromNative(decimal128.Round(n))
		}
		in.unsupported("decimal128.Round on symbolic value")
		return nil
	}
	S[D+"NaN"] = func(in *Interp, fn *ssa.Function, a []Value) Value { return &DecV{Cls: DNaN} }
	S[D+"Inf"] = func(in *Interp, fn *ssa.Function, a []Value) Value {
		if in.branch(Ge(a[0].(*Term), IntC(0))) {
			return &DecV{Cls: DPosInf}
		}
		return &DecV{Cls: DNegInf}
	}
	S[D+"Max"] = func(in *Interp, fn *ssa.Function, a []Value) Value {
		x, y := in.toDec(a[0]), in.toDec(a[1])
		c := in.decCmp(x, y)
		if c == -2 {
			return &DecV{Cls: DNaN}
		}
		if c >= 0 {
			return x
		}
		return y
	}
	S[D+"Min"] = func(in *Interp, fn *ssa.Function, a []Value) Value {
		x, y := in.toDec(a[0]), in.toDec(a[1])
		c := in.decCmp(x, y)
		if c == -2 {
			return &DecV{Cls: DNaN}
		}
		if c <= 0 {
			return x
		}
		return y
	}
	S[D+"MustParse"] = func(in *Interp, fn *ssa.Function, a []Value) Value {
		r := S[D+"Parse"](in, fn, a).(TupleV)
		if e := in.force(r[1]); e.T != nil {
			in.goPanic("decimal128.MustParse: invalid syntax")
		}
		return r[0]
	}
	S[DM+"Sign"] = func(in *Interp, fn *ssa.Function, a []Value) Value {
		return IntC(int64(in.decSign(in.toDec(a[0]))))
	}
	S[DM+"Float64"] = func(in *Interp, fn *ssa.Function, a []Value) Value {
		d := in.toDec(a[0])
		if n, ok := decNative(d); ok {
			return FloatFromGo(n.Float64(), 64)
		}
		switch d.Cls {
		case DNaN:
			return &FloatV{Cls: FNaN, Bits: 64}
		case DPosInf:
			return &FloatV{Cls: FPosInf, Bits: 64}
		case DNegInf:
			return &FloatV{Cls: FNegInf, Bits: 64}
		}
		// rounding to binary64: uninterpreted, exact on integers up to 2^53
		f := UF("fl64", SReal, d.Val)
		if k, isInt := asInt(d.Val); isInt {
			lim := BigC(pow2[53])
			in.bg = append(in.bg, Implies(And(Le(Neg(lim), k), Le(k, lim)), Eq(f, d.Val)))
		}
		return &FloatV{Cls: FFinite, Val: f, Bits: 64, Lossy: true}
	}
	S[D+"Ceil"] = func(in *Interp, fn *ssa.Function, a []Value) Value {
		d := in.toDec(a[0])
		if n, ok := decNative(d); ok {
			return decFromNative(decimal128.Ceil(n))
		}
		if d.Cls != DFinite {
			return d
		}
		return &DecV{Cls: DFinite, Val: Neg(ToReal(ToIntFloor(Neg(d.Val)))), Lossy: d.Lossy}
	}
	S[DM+"IsNaN"] = func(in *Interp, fn *ssa.Function, a []Value) Value {
		return BoolC(in.toDec(a[0]).Cls == DNaN)
	}
	S[DM+"IsInf"] = func(in *Interp, fn *ssa.Function, a []Value) Value {
		d := in.toDec(a[0])
		sg := a[1].(*Term)
		return Or(And(Ge(sg, IntC(0)), BoolC(d.Cls == DPosInf)), And(Le(sg, IntC(0)), BoolC(d.Cls == DNegInf)))
	}
	S[DM+"IsZero"] = func(in *Interp, fn *ssa.Function, a []Value) Value {
		d := in.toDec(a[0])
		if d.Cls != DFinite {
			return False
		}
		return isZeroT(d.Val)
	}
	S[DM+"Signbit"] = func(in *Interp, fn *ssa.Function, a []Value) Value {
		d := in.toDec(a[0])
		switch d.Cls {
		case DNegInf:
			return True
		case DPosInf, DNaN:
			return False
		}
		return Or(Lt(d.Val, RealOfInt(0)), And(isZeroT(d.Val), BoolC(d.NegZ)))
	}
	S[DM+"Equal"] = func(in *Interp, fn *ssa.Function, a []Value) Value {
		return BoolC(in.decCmp(in.toDec(a[0]), in.toDec(a[1])) == 0)
	}
	S[DM+"Cmp"] = func(in *Interp, fn *ssa.Function, a []Value) Value {
		return IntC(int64(in.decCmp(in.toDec(a[0]), in.toDec(a[1]))))
	}
	S[D+"Compare"] = func(in *Interp, fn *ssa.Function, a []Value) Value {
		x, y := in.toDec(a[0]), in.toDec(a[1])
		// documented total order: NaN sorts before everything, NaN == NaN
		if x.Cls == DNaN || y.Cls == DNaN {
			switch {
			case x.Cls == DNaN && y.Cls == DNaN:
				return IntC(0)
			case x.Cls == DNaN:
				return IntC(-1)
			}
			return IntC(1)
		}
		return IntC(int64(in.decCmp(x, y)))
	}
	cmpRes := func(f func(c int64) bool) StubFn {
		return func(in *Interp, fn *ssa.Function, a []Value) Value {
			c, ok := a[0].(*Term).Int64Val()
			if !ok {
				in.unsupported("symbolic CmpResult")
			}
			return BoolC(f(c))
		}
	}
	CR := "(github.com/woodsbury/decimal128.CmpResult)."
	S[CR+"Equal"] = cmpRes(func(c int64) bool { return c == 0 })
	S[CR+"Greater"] = cmpRes(func(c int64) bool { return c == 1 })
	S[CR+"GreaterOrEqual"] = cmpRes(func(c int64) bool { return c == 0 || c == 1 })
	S[CR+"Less"] = cmpRes(func(c int64) bool { return c == -1 })
	S[CR+"LessOrEqual"] = cmpRes(func(c int64) bool { return c == 0 || c == -1 })
	S[DM+"Int64"] = func(in *Interp, fn *ssa.Function, a []Value) Value {
		d := in.toDec(a[0])
		lo, hi := typeRange(64, true)
		switch d.Cls {
		case DNaN:
			in.goPanic("Decimal(NaN).Int64()")
		case DPosInf:
			return TupleV{BigC(hi), False}
		case DNegInf:
			return TupleV{BigC(lo), False}
		}
		tr := Ite(Ge(d.Val, RealOfInt(0)), ToIntFloor(d.Val), Neg(ToIntFloor(Neg(d.Val))))
		k := in.decide("decint64", []*Term{And(Ge(tr, BigC(lo)), Le(tr, BigC(hi))), Lt(tr, BigC(lo)), Gt(tr, BigC(hi))})
		switch k {
		case 1:
			return TupleV{BigC(lo), False}
		case 2:
			return TupleV{BigC(hi), False}
		}
		return TupleV{tr, True}
	}
	S[DM+"String"] = func(in *Interp, fn *ssa.Function, a []Value) Value {
		d := in.toDec(a[0])
		if nv, ok := toNativeJSON(in, d); ok {
			return ConcStr(nv.(decimal128.Decimal).String())
		}
		return in.opaqueStr()
	}
	S[DM+"MarshalJSON"] = func(in *Interp, fn *ssa.Function, a []Value) Value {
		in.unsupported("Decimal.MarshalJSON direct call")
		return nil
	}
}

// roundToFloat models strconv.ParseFloat of an abstract number text: the
// result is an uninterpreted function of the exact value, constrained to be
// exact where binary64 is exact (integers up to 2^53) and inexact for tenths
// that are not halves - so a computation routed through binary floating point
// cannot be proven equal to the exact decimal result.
func (in *Interp) roundToFloat(nt *NumText) *FloatV {
	v := numTextValue(nt)
	f := UF("fl64", SReal, v)
	lim := BigC(pow2[53])
	switch nt.Scale {
	case 0:
		in.bg = append(in.bg, Implies(And(Le(Neg(lim), nt.K), Le(nt.K, lim)), Eq(f, v)))
	case 1:
		in.bg = append(in.bg, Implies(Not(Eq(EMod(nt.K, IntC(5)), IntC(0))), Not(Eq(f, v))))
		in.bg = append(in.bg, Implies(Eq(EMod(nt.K, IntC(5)), IntC(0)), Eq(f, v)))
	}
	return &FloatV{Cls: FFinite, Val: f, Bits: 64, Lossy: true}
}

// forceDeep resolves all lazies reachable from v.
func (in *Interp) forceDeep(v Value) {
	switch x := v.(type) {
	case *LazyV:
		iv := in.lazyForce(x)
		in.forceDeep(iv)
	case IfaceV:
		if x.T != nil {
			in.forceDeep(x.V)
		}
	case SliceV:
		for i := 0; i < x.Len; i++ {
			in.forceDeep(x.Arr.Elems[x.Off+i])
		}
	case *MapV:
		if x != nil {
			for _, e := range x.Vals {
				in.forceDeep(e)
			}
		}
	}
}

func (in *Interp) errorsIs(err, target IfaceV) *Term {
	if err.T == nil || target.T == nil {
		return BoolC(err.T == nil && target.T == nil)
	}
	for depth := 0; depth < 16; depth++ {
		// native vs native
		if en, ok := err.V.(*NativeV); ok {
			if tn, ok := target.V.(*NativeV); ok {
				return BoolC(errors.Is(en.V.(error), tn.V.(error)))
			}
			// native error chain cannot contain interpreted errors
			return False
		}
		if _, isNative := target.V.(*NativeV); !isNative && types.Identical(err.T, target.T) && types.Comparable(err.T) {
			eq := in.valueEqual(err.V, target.V)
			if in.branch(eq) {
				return True
			}
		}
		if m := in.findMethod(err.T, "Is"); m != nil && m.Signature.Params().Len() == 1 {
			r := in.CallFunction(m, []Value{copyValue(err.V), target}, nil).(*Term)
			if in.branch(r) {
				return True
			}
		}
		if m := in.findMethod(err.T, "Unwrap"); m != nil && m.Signature.Results().Len() == 1 {
			u := in.CallFunction(m, []Value{copyValue(err.V)}, nil)
			if _, isSlice := u.(SliceV); isSlice {
				in.unsupported("errors.Is over Unwrap() []error")
			}
			ue := in.force(u)
			if ue.T == nil {
				return False
			}
			err = ue
			continue
		}
		return False
	}
	return False
}

// findMethod returns the (exported) method name of t, or nil.
func (in *Interp) findMethod(t types.Type, name string) *ssa.Function {
	sel := in.W.Prog.MethodSets.MethodSet(t).Lookup(nil, name)
	if sel == nil {
		return nil
	}
	return in.W.Prog.MethodValue(sel)
}

type symJSONDecoder struct {
	src       *StrV
	useNumber bool
	done      bool
}

// jsonDecodeString models encoding/json's decoding of one JSON string text
// (with optional surrounding JSON whitespace) over symbolic bytes.
func (in *Interp) jsonDecodeString(b []*Term) ([]*Term, bool) {
	isWS := func(t *Term) *Term {
		return Or(Eq(t, IntC(' ')), Eq(t, IntC('\t')), Eq(t, IntC('\n')), Eq(t, IntC('\r')))
	}
	i, n := 0, len(b)
	for i < n && in.branch(isWS(b[i])) {
		i++
	}
	for n > i && in.branch(isWS(b[n-1])) {
		n--
	}
	if n-i < 2 || !in.branch(Eq(b[i], IntC('"'))) || !in.branch(Eq(b[n-1], IntC('"'))) {
		return nil, false
	}
	i++
	n--
	var out []*Term
	hex := func(t *Term) (*Term, bool) {
		k := in.decide("hexdigit", []*Term{
			And(Ge(t, IntC('0')), Le(t, IntC('9'))),
			And(Ge(t, IntC('a')), Le(t, IntC('f'))),
			And(Ge(t, IntC('A')), Le(t, IntC('F'))),
			Not(Or(And(Ge(t, IntC('0')), Le(t, IntC('9'))), And(Ge(t, IntC('a')), Le(t, IntC('f'))), And(Ge(t, IntC('A')), Le(t, IntC('F'))))),
		})
		switch k {
		case 0:
			return Sub(t, IntC('0')), true
		case 1:
			return Sub(t, IntC('a'-10)), true
		case 2:
			return Sub(t, IntC('A'-10)), true
		}
		return nil, false
	}
	u4 := func(p int) (*Term, bool) {
		if p+4 > n {
			return nil, false
		}
		v := IntC(0)
		for k := 0; k < 4; k++ {
			h, ok := hex(b[p+k])
			if !ok {
				return nil, false
			}
			v = Add(Mul(v, IntC(16)), h)
		}
		return v, true
	}
	for i < n {
		c := b[i]
		k := in.decide("jsonchar", []*Term{Eq(c, IntC('"')), Eq(c, IntC('\\')), Lt(c, IntC(0x20)), And(Ge(c, IntC(0x20)), Not(Eq(c, IntC('"'))), Not(Eq(c, IntC('\\'))))})
		switch k {
		case 0, 2:
			return nil, false
		case 3:
			// literal byte; (invalid UTF-8 would be replaced by U+FFFD - inputs here are valid UTF-8)
			out = append(out, c)
			i++
			continue
		}
		// escape
		if i+1 >= n {
			return nil, false
		}
		e := b[i+1]
		ev, ok := e.Int64Val()
		if !ok {
			// symbolic escape letter: decide among the legal ones
			legal := []int64{'"', '\\', '/', 'b', 'f', 'n', 'r', 't', 'u'}
			var alts []*Term
			var none []*Term
			for _, l := range legal {
				alts = append(alts, Eq(e, IntC(l)))
				none = append(none, Not(Eq(e, IntC(l))))
			}
			alts = append(alts, And(none...))
			kk := in.decide("jsonesc", alts)
			if kk == len(legal) {
				return nil, false
			}
			ev = legal[kk]
		}
		i += 2
		switch ev {
		case '"', '\\', '/':
			out = append(out, IntC(ev))
		case 'b':
			out = append(out, IntC(8))
		case 'f':
			out = append(out, IntC(12))
		case 'n':
			out = append(out, IntC(10))
		case 'r':
			out = append(out, IntC(13))
		case 't':
			out = append(out, IntC(9))
		case 'u':
			r, ok := u4(i)
			if !ok {
				return nil, false
			}
			i += 4
			hi := And(Ge(r, IntC(0xD800)), Le(r, IntC(0xDBFF)))
			lo := And(Ge(r, IntC(0xDC00)), Le(r, IntC(0xDFFF)))
			switch in.decide("surrogate", []*Term{hi, lo, Not(Or(hi, lo))}) {
			case 0:
				// needs \uDC00-\uDFFF next, otherwise U+FFFD
				paired := false
				if i+6 <= n && in.branch(And(Eq(b[i], IntC('\\')), Eq(b[i+1], IntC('u')))) {
					r2, ok := u4(i + 2)
					if !ok {
						return nil, false
					}
					if in.branch(And(Ge(r2, IntC(0xDC00)), Le(r2, IntC(0xDFFF)))) {
						i += 6
						r = Add(IntC(0x10000), Add(Mul(Sub(r, IntC(0xD800)), IntC(1024)), Sub(r2, IntC(0xDC00))))
						paired = true
					}
				}
				if !paired {
					r = IntC(0xFFFD)
				}
			case 1:
				r = IntC(0xFFFD)
			}
			out = append(out, in.encodeRune(r)...)
		default:
			return nil, false
		}
	}
	return out, true
}

func abs(x int) int {
	if x < 0 {
		return -x
	}
	return x
}
