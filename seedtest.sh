#!/bin/bash
# seedtest.sh <patch.diff> <demo_test.go> <prop> [<prop>...]
# Verifies a seeded defect (applies cleanly, test suite still passes, demo fails
# with it and passes without) in a scratch worktree, then runs the given checks
# against /repo with the patch applied and restores /repo.
set -u
patch=$1; demo=$2; shift 2
export GOFLAGS=-mod=mod GOPROXY=off
wt=/tmp/seedcheck_wt
rm -rf $wt; git -C /repo worktree prune; git -C /repo worktree add -q --detach $wt HEAD || exit 2
demoname=$(basename $demo)
(cd $wt && cp $demo ./$demoname && go test -count=1 -run 'TestSeedDemo' . >/tmp/seed_clean.log 2>&1; echo "demo on clean tree: exit=$?")
(cd $wt && git apply $patch && echo "patch applies" || echo "PATCH DOES NOT APPLY")
(cd $wt && go build ./... && go test -count=1 -run 'TestSeedDemo' . >/tmp/seed_mut.log 2>&1; echo "demo with patch: exit=$? (want non-zero)")
(cd $wt && rm -f $demoname && go test -count=1 ./... >/tmp/seed_suite.log 2>&1; echo "existing suite with patch: exit=$? (want 0)")
git -C /repo worktree remove --force $wt
# run the checks on /repo itself
git -C /repo apply $patch || { echo "cannot apply to /repo"; exit 2; }
for p in "$@"; do
  out=$(cd /verif && timeout 1500 bin/vcheck run -p $p -tier quick 2>&1)
  echo "--- $p: rc=$? $(echo "$out" | grep -c '^VIOLATION') violations; $(echo "$out" | grep '^RESULT' | cut -c1-160)"
  echo "$out" | grep "^VIOLATION\|^NOT-CLAIMED\|^ENCODING" | head -3 | cut -c1-220
done
git -C /repo checkout -- .
git -C /repo status --short | head -3
