#!/bin/bash
# devseed.sh <seed-id> <prop> [extra vcheck args] : run one check of this verif tree against a seeded defect in a scratch worktree
id=$1; p=$2; shift 2
V=${VERIF_DIR:-/verif}
wt=/tmp/dv_$id; rm -rf $wt; git -C /repo worktree prune
git -C /repo worktree add -q --detach $wt HEAD || exit 2
git -C $wt apply /verif/seeded/$id/patch.diff || { echo "PATCH DOES NOT APPLY"; git -C /repo worktree remove --force $wt; exit 2; }
(cd $V && VERIF_DIR=$V $V/bin/vcheck run -p $p -tier ${TIER:-quick} -repo $wt -tag dv$id "$@" 2>&1 | grep -v "^  " | grep "^H_\|^VIOLATION\|^RESULT\|^NOT-CLAIMED\|^UNDECIDED\|^ENCODING" | cut -c1-260 | head -${LINES_MAX:-12})
git -C /repo worktree remove --force $wt; rm -rf $V/out/scratch-dv$id $V/out/overlaydv$id
