package jmespath

import (
	"encoding/json"
	"strconv"
)

// H_C16_long: tokens and lists whose length crosses the sizes small fixed
// buffers have (15..17, 31..33, 63..65, 127..129, 255..257 bytes or members):
// a long identifier selects its member; long raw strings, quoted identifiers
// and JSON strings decode to themselves (with a multi-byte character and an
// escape at the end, where a chunked copy would cut them); long multi-selects
// and argument lists keep every member in order; a long chain of fields
// reaches its leaf.
func H_C16_long() {
	sizes := []int{15, 16, 17, 31, 32, 33, 63, 64, 65, 127, 128, 129, 255, 256, 257}
	n := sizes[vrtChoose("n", len(sizes))]
	vrtBudget(8000000)
	vrtMaxAlloc(3000)
	body := ""
	for len(body) < n {
		body += string(rune('a' + len(body)%26))
	}
	const bs = "\\"
	switch vrtChoose("form", 8) {
	case 0:
		vrtNote("template:long identifier")
		got, err := Search(body, map[string]any{body: "v", body[:n-1]: "w", body + "a": "u"})
		vrtAssert(err == nil && got == any("v"), "a long identifier selects the member of that name")
	case 1:
		vrtNote("template:long raw string")
		want := body[:n-3] + "é" + "'" + "z"
		got, err := Search("'"+body[:n-3]+"é"+bs+"'z'", nil)
		vrtAssert(err == nil && got == any(want), "a long raw string evaluates to itself")
	case 2:
		vrtNote("template:long quoted identifier")
		key := body[:n-2] + "é" + "\"" + "\n"
		got, err := Search("\""+body[:n-2]+"é"+bs+"\""+bs+"n\"", map[string]any{key: "v", body: "w"})
		vrtAssert(err == nil && got == any("v"), "a long quoted identifier selects the member of that name")
	case 3:
		vrtNote("template:long JSON string literal")
		want := body[:n-2] + "é" + "`" + "\t"
		got, err := Search("`\""+body[:n-2]+"é"+bs+"`"+bs+"t\"`", nil)
		vrtAssert(err == nil && got == any(want), "a long JSON string literal evaluates to itself")
	case 4:
		vrtNote("template:long multi-select list")
		if n > 130 {
			return
		}
		expr := "["
		for i := 0; i < n; i++ {
			if i > 0 {
				expr += ", "
			}
			expr += "`" + strconv.Itoa(i) + "`"
		}
		got, err := Search(expr+"]", nil)
		arr, _ := got.([]any)
		vrtAssert(err == nil && len(arr) == n, "a long multi-select list keeps every member")
		for i := range arr {
			vrtAssert(arr[i] == any(json.Number(strconv.Itoa(i))), "members in order")
		}
	case 5:
		vrtNote("template:long multi-select hash")
		if n > 130 {
			return
		}
		expr := "{"
		for i := 0; i < n; i++ {
			if i > 0 {
				expr += ", "
			}
			expr += "k" + strconv.Itoa(i) + ": `" + strconv.Itoa(i) + "`"
		}
		got, err := Search(expr+"}", nil)
		m, _ := got.(map[string]any)
		vrtAssert(err == nil && len(m) == n, "a long multi-select hash keeps every member")
		vrtAssert(m["k"+strconv.Itoa(n-1)] == any(json.Number(strconv.Itoa(n-1))), "last member present")
	case 6:
		vrtNote("template:long argument list")
		if n > 130 {
			return
		}
		expr := "not_null("
		for i := 0; i < n-1; i++ {
			expr += "`null`, "
		}
		got, err := Search(expr+"'last')", nil)
		vrtAssert(err == nil && got == any("last"), "not_null looks at every argument")
	default:
		vrtNote("template:long field chain")
		if n > 130 {
			return
		}
		var doc any = "leaf"
		expr := ""
		for i := 0; i < n; i++ {
			doc = map[string]any{"a": doc}
			if i > 0 {
				expr += "."
			}
			expr += "a"
		}
		got, err := Search(expr, doc)
		vrtAssert(err == nil && got == any("leaf"), "a long chain of fields reaches the leaf")
	}
}
