package jmespath

import (
	"encoding/json"
	"strconv"
)

// C06: a compiled expression is a pure, reusable function of the data.
// (a) the three entry points agree; (b) no call writes to the document, to the
// compiled expression or to package-level state - decided by the engine's
// shared-write monitor on every path, and natively by deep snapshots; (c) short
// histories on one Expression equal fresh one-shot evaluations.

var c06Exprs = []string{
	"@", "a", "a[0:2]", "a[1:]", "a[::-1]", "sort(a)", "reverse(a)", "to_array(a)", "merge(b, `{\"z\": 1}`)", "merge(b, b)", "a[*]", "a[]", "a[?@]",
	"`[3, 1, 2]`", "sort(`[3, 1, 2]`)", "`{\"x\": [1]}`.x", "[a, b]", "{p: a, q: b}", "sort_by(a, &@)", "map(&@, a)", "values(b)", "keys(b)", "items(b)",
	"group_by(c, &k)", "from_items(d)", "zip(a, a)", "not_null(a, b)", "a || b", "a && b", "max_by(c, &k)", "let $v = a in [$v, $v]", "b.*", "*", "join('-', a)",
	"a[0]", "flatten_me[][]", "a | [0]", "min(a)", "max(a)", "sum(a)", "avg(a)", "a[?@ == `1`]", "c[*].k", "c[?k].k", "c[].k", "to_string(a)", "length(a)",
}

// c06Current: selectors on the current node whose own sub-expressions are all
// literals (an analysis that looks only at an expression's children would call
// them constant).
var c06Current = []string{
	"*[?`true`]", "*[?`1` < `2`][0]", "[?`true`]", "*[?'a' == 'a']", "*[*]", "*[]", "*[0]", "*[1:]", "@[?`true`]", "[`1`, @][1]", "{p: `1`, q: @}.q.a", "*.[`1`]",
	"[*]", "[]", "[0]", "[1:]", "[::-1]", "[?`1`]", "[*][?`true`]", "[][?`true`]",
}

// c06Gen: every aliasing-prone function applied to every kind of argument
// expression (plain field, each projection kind with and without right-hand
// side, slices, literals, multi-selects, boolean forms), and object functions
// with a literal in every position.
func c06Gen() []string {
	fns := []string{"sort(%s)", "reverse(%s)", "to_array(%s)", "sort_by(%s, &@)", "max(%s)", "map(&@, %s)", "not_null(%s)", "(%s)[0]", "%s | sort(@)", "zip(%s, %s)", "join('-', %s)"}
	args := []string{"a", "a[*]", "a[]", "a[?@]", "a[1:]", "a[::-1]", "a[:2]", "`[3, 1, 2]`", "[a[0], a[1]]", "a || `[]`", "a[?@ != `9`]", "c[*].k", "to_array(a)", "values(b)", "a[*][0]", "not_null(a)", "a[]"}
	var out []string
	for _, f := range fns {
		for _, a := range args {
			e := ""
			for i := 0; i < len(f); i++ {
				if f[i] == '%' && i+1 < len(f) && f[i+1] == 's' {
					e += a
					i++
				} else {
					e += string([]byte{f[i]})
				}
			}
			out = append(out, e)
		}
	}
	objs := []string{"b", "`{\"z\": 1}`", "{k: a}", "from_items(d)", "b || `{}`", "merge(b)", "group_by(c, &k)"}
	for _, x := range objs {
		for _, y := range objs {
			out = append(out, "merge("+x+", "+y+")")
		}
		out = append(out, "values("+x+")", "keys("+x+")", x+".*", "items("+x+")", "("+x+").k")
	}
	return out
}

// deepCopy snapshots a value including the spare capacity of its slices.
// Under symbolic execution the engine's shared-write monitor observes every
// store instead (a snapshot would force every undecided part of the document),
// so the snapshot is only taken in native replay.
func deepCopy(v any) any {
	if vrtSymbolic() {
		return nil
	}
	switch x := v.(type) {
	case []any:
		full := x[:cap(x)]
		c := make([]any, len(full))
		for i := range full {
			c[i] = deepCopy(full[i])
		}
		return c[:len(x)]
	case map[string]any:
		c := make(map[string]any, len(x))
		for k, e := range x {
			c[k] = deepCopy(e)
		}
		return c
	}
	return v
}

// deepSame compares a value with its snapshot, spare capacity included.
func deepSame(v, snap any) bool {
	if vrtSymbolic() {
		return true
	}
	switch x := v.(type) {
	case []any:
		y, ok := snap.([]any)
		if !ok || len(x) != len(y) || cap(x) != cap(y) {
			return false
		}
		fx, fy := x[:cap(x)], y[:cap(y)]
		for i := range fx {
			if !deepSame(fx[i], fy[i]) {
				return false
			}
		}
		return true
	case map[string]any:
		y, ok := snap.(map[string]any)
		if !ok || len(x) != len(y) {
			return false
		}
		for k, e := range x {
			w, ok := y[k]
			if !ok || !deepSame(e, w) {
				return false
			}
		}
		return true
	case json.Number:
		y, ok := snap.(json.Number)
		return ok && x == y
	}
	return refEqual(v, snap)
}

func c06Doc() map[string]any {
	vrtSpec(tq(3, 4), 2, 1, "k,x", smASCII, nfInt, 0)
	vrtNumRange(0, 3)
	vrtNested(2)
	return map[string]any{
		"a": vrtDoc("a", 1, uArr|uNil|uStr, uJNum|uStr|uNil),
		"b": vrtDoc("b", 1, uObj|uNil, uScalar),
		"c": vrtDoc("c", 2, uArr, uObj),
		"d": vrtDoc("d", 2, uArr, uArr),
	}
}

// sameOutcome: same error class or equal values.
func sameOutcome(r1 any, e1 error, r2 any, e2 error, unordered bool) bool {
	if (e1 == nil) != (e2 == nil) {
		return false
	}
	if e1 != nil {
		return classOf(e1) == classOf(e2)
	}
	if unordered {
		return refEqualMS(r1, r2)
	}
	return refEqual(r1, r2)
}

func c06Unordered(expr string) bool {
	switch expr {
	case "values(b)", "keys(b)", "items(b)", "b.*", "*":
		return true
	}
	return len(expr) > 0 && expr[0] == '*'
}

// H_C06_pure: one Search on a compiled expression leaves document, expression
// and globals untouched, and equals the one-shot Search; then the history
// e(d1); e(d2); e(d1) is replayed and every result re-checked.
func H_C06_pure() { c06Pure(c06Exprs) }

// H_C06_generated: the same obligations over the generated function x argument
// templates.
func H_C06_generated() { c06Pure(c06Gen()) }

// H_C06_current: the same obligations for the current-node templates, on an
// object root and on an array root (small documents: the point is the second,
// different document).
func H_C06_current() {
	k := vrtChoose("expr", len(c06Current))
	expr := c06Current[k]
	vrtNote("template:" + expr)
	vrtSpec(2, 2, 1, "k,x", smASCII, nfInt, 0)
	vrtNumRange(0, 3)
	vrtNested(1)
	var d1, d2 any
	if vrtBool("arrayroot") {
		d1 = []any{vrtDoc("e0", 1, uArr|uNil|uJNum, uJNum|uNil), vrtDoc("e1", 1, uArr|uObj|uNil, uJNum)}
		d2 = []any{[]any{json.Number("3"), nil, json.Number("1")}, json.Number("5"), []any{json.Number("2")}}
	} else {
		d1 = map[string]any{"a": vrtDoc("a", 1, uArr|uNil, uJNum|uNil), "b": vrtDoc("b", 1, uObj|uNil|uJNum, uJNum)}
		d2 = map[string]any{"a": []any{json.Number("3"), nil, json.Number("1")}, "z": map[string]any{"a": json.Number("7")}}
	}
	snap1 := deepCopy(d1)
	e, cerr := Compile(expr)
	vrtAssert(cerr == nil, "template compiles")
	if cerr != nil {
		return
	}
	vrtMonitor(true)
	r1, err1 := e.Search(d1)
	r2, err2 := e.Search(d2)
	r3, err3 := e.Search(d1)
	vrtMonitor(false)
	vrtAssert(vrtEventCount("sharedwrite") == 0, "a Search call wrote to the document, the compiled expression or a package-level variable")
	vrtAssert(deepSame(d1, snap1), "Search modified the caller's data")
	o1, oerr1 := Search(expr, d1)
	o2, oerr2 := Search(expr, d2)
	vrtAssert(sameOutcome(r1, err1, o1, oerr1, true), "Expression.Search differs from one-shot Search")
	vrtAssert(sameOutcome(r2, err2, o2, oerr2, true), "a compiled expression applied to a second document differs from a fresh evaluation of that document")
	vrtAssert(sameOutcome(r1, err1, r3, err3, true), "the same document gives a different outcome after the expression was applied to other data")
}

func c06Pure(exprs []string) {
	k := vrtChoose("expr", len(exprs))
	expr := exprs[k]
	vrtNote("template:" + expr)
	d1 := c06Doc()
	snap1 := deepCopy(d1)
	e, cerr := Compile(expr)
	vrtAssert(cerr == nil, "template compiles")
	if cerr != nil {
		return
	}
	un := c06Unordered(expr) || len(exprs) > len(c06Exprs)
	vrtMonitor(true)
	r1, err1 := e.Search(d1)
	vrtMonitor(false)
	vrtAssert(vrtEventCount("sharedwrite") == 0, "a Search call wrote to the document, the compiled expression or a package-level variable")
	vrtAssert(deepSame(d1, snap1), "Search modified the caller's data")
	var r1snap any
	if err1 == nil {
		r1snap = deepCopy(r1)
	}
	o1, oerr1 := Search(expr, d1)
	vrtAssert(sameOutcome(r1, err1, o1, oerr1, un), "Expression.Search differs from one-shot Search")
	if err1 == nil {
		// results are plain values the caller may query again: doing so must not
		// reach back into the expression or the document
		vrtMonitor(true)
		_, _ = Search("sort(@)", r1)
		_, _ = Search("reverse(@)", r1)
		_, _ = Search("merge(@, `{\"zz\": 2}`)", r1)
		vrtMonitor(false)
		vrtAssert(vrtEventCount("sharedwrite") == 0, "querying a result wrote to the document or the compiled expression")
	}
	// a second document, then the first again
	d2 := map[string]any{"a": []any{json.Number("3"), json.Number("1"), nil, json.Number("2")}, "b": map[string]any{"k": json.Number("9"), "only_in_d2": json.Number("7")}, "c": []any{map[string]any{"k": "z"}, map[string]any{"k": "y"}}, "d": []any{[]any{"k", json.Number("1")}}}
	vrtMonitor(true)
	r2, err2 := e.Search(d2)
	r3, err3 := e.Search(d1)
	vrtMonitor(false)
	vrtAssert(vrtEventCount("sharedwrite") == 0, "a later Search call wrote to shared state")
	o2, oerr2 := Search(expr, d2)
	vrtAssert(sameOutcome(r2, err2, o2, oerr2, un), "a compiled expression applied to a second document differs from a fresh evaluation of that document")
	vrtAssert(sameOutcome(r1, err1, r3, err3, un), "the same document gives a different outcome after the expression was applied to other data")
	vrtAssert(deepSame(d1, snap1), "a later Search modified the caller's data")
	if err1 == nil {
		vrtAssert(deepSame(r1, r1snap) || un, "an earlier result changed after later calls")
	}
}

var c06Entry = []string{"a", "a[0]", "a.b | c", "[", "a[", "abs()", "nosuch(a)", "a[::0]", "abs(&a)", "'x", "a +", "length(a)", "$v", "let $v = a in $v", "`[1,2`", "a.", "sort_by(a, b)"}

// H_C06_entry: Search, Compile+Search and MustCompile agree; MustCompile
// panics exactly when Compile fails.
func H_C06_entry() {
	vrtSpec(tq(2, 3), 2, 1, "a,b,c", smASCII, nfInt, 0)
	expr := c06Entry[vrtChoose("expr", len(c06Entry))]
	vrtNote("template:" + expr)
	doc := vrtDoc("d", 2, uJSON, uJSON)
	r1, err1 := Search(expr, doc)
	e, cerr := Compile(expr)
	panics := vrtPanics(func() { MustCompile(expr) })
	vrtAssert(panics == (cerr != nil), "MustCompile panics exactly when Compile fails")
	if cerr != nil {
		vrtAssert(e == nil, "failed Compile returns nil")
		vrtAssert(err1 != nil && classOf(err1) == classOf(cerr) && r1 == nil, "Search reports what Compile reports")
		return
	}
	r2, err2 := e.Search(doc)
	vrtAssert(sameOutcome(r1, err1, r2, err2, false), "Compile+Search differs from Search")
	r3, err3 := MustCompile(expr).Search(doc)
	vrtAssert(sameOutcome(r1, err1, r3, err3, false), "MustCompile+Search differs from Search")
	if err1 != nil {
		vrtAssert(r1 == nil && r2 == nil, "failed call returns nil")
	}
}

// c06Pairs: expressions that differ only inside a quoted token or in layout.
// Evaluating one must not influence the other (no state keyed by a lossy
// digest of the text).
const c06Long = "a.b.a.b.a.b.a.b.a.b.a.b.a.b.a.b.a.b.a.b.a.b.a.b.a.b.a.b.a.b.a.b.a.b.a.b.a.b"

var c06Pairs = [][2]string{
	{"join(' ', a)", "join('  ', a)"}, {"\"a b\"", "\"a  b\""}, {"'x'", "' x'"}, {"a.b", "a .b"}, {"`\"a b\"`", "`\"a  b\"`"}, {"a == 'A'", "a == 'a'"},
	{"[a,b]", "[a, b]"}, {"'a\tb'", "'a b'"}, {"\"a\\tb\"", "\"a b\""}, {"a||b", "a || b"}, {"length(a)", "length( a )"}, {"a[0]", "a[ 0 ]"}, {"'a' 'b'", "'a''b'"},
	// the same text padded with characters that are white space to Go but not to the grammar
	// same bytes in another order, long common prefixes / suffixes, same length and same ends
	{"a.b", "b.a"}, {"a || b", "b || a"}, {"[a, b]", "[b, a]"}, {"{a: a, b: b}", "{b: a, a: b}"},
	{c06Long + ".a", c06Long + ".b"}, {"a." + c06Long, "b." + c06Long}, {c06Long + ".a." + c06Long, c06Long + ".b." + c06Long},
	{"a", "a\u00a0"}, {"a", "\va"}, {"a.b", "a.b\u2028"}, {"a", "a\f"}, {"a", "\u0085 a \u3000"}, {"a", " a "}, {"a", "a\x00"},
}

// H_C06_history: the outcome of a call does not depend on which other
// expressions were compiled or evaluated before (differential against the
// reference after a warm-up with a near-identical expression).
func H_C06_history() {
	vrtSpec(2, 2, 1, "a,b,a b,a  b", smASCII, nfInt, 0)
	p := c06Pairs[vrtChoose("pair", len(c06Pairs))]
	first, second := p[0], p[1]
	if vrtChoose("order", 2) == 1 {
		first, second = second, first
	}
	vrtNote("template:" + first + "  then  " + second)
	doc := vrtDoc("d", 2, uJSON, uJSON)
	_, _ = Search(first, doc)
	_, _ = Compile(first)
	diffSearch(second, doc, false)
	e, err := Compile(second)
	if err == nil {
		got, gerr := e.Search(doc)
		want, werr := Search(second, doc)
		vrtAssert(sameOutcome(got, gerr, want, werr, false), "compiled and one-shot evaluation differ after another expression was used")
	}
}

// H_C06_mutated: the caller owns its data and may change it between calls: a
// compiled expression applied again to the same (now modified) document
// returns what a fresh evaluation of the modified document returns - nothing
// is remembered by document identity.
func H_C06_mutated() {
	k := vrtChoose("expr", len(c06Exprs))
	expr := c06Exprs[k]
	vrtNote("template:" + expr)
	arr := make([]any, 3, 4)
	arr[0], arr[1], arr[2] = json.Number("3"), json.Number("1"), json.Number("2")
	inner := map[string]any{"k": "p", "x": json.Number("1")}
	doc := map[string]any{"a": arr, "b": map[string]any{"k": "v", "x": json.Number("7")}, "c": []any{inner, map[string]any{"k": "q"}}, "d": []any{[]any{"k", json.Number("1")}}}
	e, cerr := Compile(expr)
	if cerr != nil {
		return
	}
	_, _ = e.Search(doc)
	_, _ = Search(expr, doc)
	switch vrtChoose("mutation", 6) {
	case 0:
		arr[0] = json.Number("0")
	case 1:
		doc["a"] = append(arr, json.Number("5"))
	case 2:
		doc["a"] = "text"
	case 3:
		delete(doc["b"].(map[string]any), "k")
	case 4:
		inner["k"] = "z"
	default:
		doc["b"] = map[string]any{"n": json.Number("1")}
		doc["d"] = []any{[]any{"m", "w"}}
	}
	got, gerr := e.Search(doc)
	want, werr := refSearch(expr, doc)
	un := c06Unordered(expr)
	if werr == ecUnspecified {
		return
	}
	if werr != ecNone {
		vrtAssert(gerr != nil && ecOfError(gerr) == werr, "compiled expression on a modified document: wrong outcome")
		return
	}
	vrtAssert(gerr == nil, "compiled expression on a modified document fails")
	if gerr == nil {
		if un {
			vrtAssert(refEqualMS(got, want), "a compiled expression does not see a change the caller made to its document")
		} else {
			vrtAssert(refEqual(got, want), "a compiled expression does not see a change the caller made to its document")
		}
	}
	one, oerr := Search(expr, doc)
	vrtAssert(sameOutcome(got, gerr, one, oerr, un), "one-shot Search does not see a change the caller made to its document")
}

// H_C06_longhistory: a long sequence of distinct expressions through every
// entry point (more than any plausible cache or intern table holds: 3200
// quick, 13000 thorough; each entry point sees a third) leaves the library working: every call returns what
// the expression means, nothing panics, and the first expression still
// evaluates as before once the sequence is over.
func H_C06_longhistory() {
	n := tq(3200, 13000)
	vrtBudget(60000000)
	vrtMaxAlloc(100000)
	vrtNote("template:" + strconv.Itoa(n) + " distinct expressions in sequence")
	doc := map[string]any{"k7": "seven", "k3199": "last", "a": json.Number("1")}
	first, ferr := Search("a", doc)
	for i := 0; i < n; i++ {
		expr := "k" + strconv.Itoa(i)
		var got any
		var err error
		switch i % 3 {
		case 0:
			got, err = Search(expr, doc)
		case 1:
			var e *Expression
			e, err = Compile(expr)
			if err == nil {
				got, err = e.Search(doc)
			}
		default:
			got, err = Search(expr+" || `0`", doc)
			if i != 7 && i != 3199 && err == nil {
				vrtAssert(got == any(json.Number("0")), "expression number "+strconv.Itoa(i)+" of a long sequence evaluates wrongly")
				continue
			}
		}
		vrtAssert(err == nil, "expression number "+strconv.Itoa(i)+" of a long sequence fails")
		if i == 7 {
			vrtAssert(got == any("seven"), "member lookup in a long sequence")
		} else if i != 3199 {
			vrtAssert(got == nil || got == any(json.Number("0")), "absent member in a long sequence")
		}
	}
	again, aerr := Search("a", doc)
	vrtAssert(sameOutcome(first, ferr, again, aerr, false), "the first expression evaluates differently after a long sequence of others")
}
