package jmespath

// Harness runtime ("vrt"). The symbolic engine intercepts every vrt* function
// by name; the bodies below are the native implementation used when a
// counterexample is replayed against the real build: they hand back, in
// order, the concrete inputs recorded in the counterexample file.

import (
	"encoding/hex"
	"encoding/json"
	"fmt"
	"math"
	"os"
	"strconv"
	"strings"
	"unicode/utf8"

	"github.com/woodsbury/decimal128"
)

// vrtForeign is an "opaque foreign Go value" for documents.
type vrtForeign struct{ X int }

// type-universe bits (must match engine/sym/lazy.go)
const (
	uNil = 1 << iota
	uBool
	uStr
	uJNum
	uArr
	uObj
	uInt
	uInt8
	uInt16
	uInt32
	uInt64
	uUint
	uUint8
	uUint16
	uUint32
	uUint64
	uF32
	uF64
	uDec
	uForeignStruct
	uForeignPtr
	uStrSlice
	uStrMap
)

const (
	uJSON    = uNil | uBool | uStr | uJNum | uArr | uObj
	uScalar  = uNil | uBool | uStr | uJNum
	uInts    = uInt | uInt8 | uInt16 | uInt32 | uInt64 | uUint | uUint8 | uUint16 | uUint32 | uUint64
	uFloats  = uF32 | uF64
	uNums    = uJNum | uInts | uFloats | uDec
	uForeign = uForeignStruct | uForeignPtr | uStrSlice | uStrMap
	uAll     = uJSON | uNums | uForeign
)

// number-text forms for vrtSpec/vrtJNum
const (
	nfInt  = 1 << 0 // 12
	nfDot  = 1 << 1 // 12.0
	nfExp  = 1 << 2 // 12e0
	nfBad  = 1 << 3 // not a number
	nfFrac = 1 << 8 // 1.2 (one fractional digit)
)

// string modes
const (
	smASCII = 0
	smUTF8  = 1 // valid UTF-8, each code point 1..4 bytes
	smBytes = 2 // arbitrary bytes
)

// spec flags
const (
	sfOrderForks = 1
	sfNoSpare    = 2
	sfSpecials   = 4 // NaN/Inf classes for float and decimal leaves
)

type vrtDraw struct {
	Kind string          `json:"kind"`
	Name string          `json:"name"`
	V    json.RawMessage `json:"v"`
	X    string          `json:"x"`
	Fmt  string          `json:"fmt"`
	Ints []string        `json:"ints"`
}

type vrtState struct {
	draws  []vrtDraw
	pos    int
	failed []string
	notes  []string
	active bool
}

var vrtS vrtState

func vrtLoad(path string) error {
	data, err := os.ReadFile(path)
	if err != nil {
		return err
	}
	var f struct {
		Draws []vrtDraw `json:"draws"`
	}
	if err := json.Unmarshal(data, &f); err != nil {
		return err
	}
	vrtS = vrtState{draws: f.Draws, active: true}
	return nil
}

type vrtAbort struct{ why string }

func vrtNext(kind string) vrtDraw {
	if vrtS.pos >= len(vrtS.draws) {
		panic(vrtAbort{"replay diverged: no more draws (wanted " + kind + ")"})
	}
	d := vrtS.draws[vrtS.pos]
	vrtS.pos++
	if d.Kind != kind {
		panic(vrtAbort{"replay diverged: draw kind " + d.Kind + " != " + kind})
	}
	return d
}

func vrtInt(name string) int {
	d := vrtNext("int")
	var s string
	json.Unmarshal(d.V, &s)
	v, err := strconv.ParseInt(s, 10, 64)
	if err != nil {
		panic(vrtAbort{"bad int " + s})
	}
	return int(v)
}

func vrtIntRange(name string, lo, hi int) int { return vrtInt(name) }

func vrtBool(name string) bool {
	d := vrtNext("bool")
	var b bool
	json.Unmarshal(d.V, &b)
	return b
}

func vrtChoose(name string, n int) int {
	d := vrtNext("choose")
	var k int
	json.Unmarshal(d.V, &k)
	return k
}

func vrtStr(name string, maxRunes int, mode int) string {
	d := vrtNext("str")
	b, _ := hex.DecodeString(d.X)
	return string(b)
}

func vrtStrN(name string, runes int, mode int) string { return vrtStr(name, runes, mode) }

func vrtJNum(name string, forms int) json.Number {
	d := vrtNext("jnum")
	var s string
	json.Unmarshal(d.V, &s)
	return json.Number(s)
}

// vrtJNumFrom spells the integer k as a JSON number in the given form.
func vrtJNumFrom(k int, form int) json.Number {
	switch form {
	case nfDot:
		return json.Number(strconv.Itoa(k) + ".0")
	case nfExp:
		return json.Number(strconv.Itoa(k) + "e0")
	case nfFrac:
		neg := k < 0
		if neg {
			k = -k
		}
		s := strconv.Itoa(k/10) + "." + strconv.Itoa(k%10)
		if neg {
			s = "-" + s
		}
		return json.Number(s)
	}
	return json.Number(strconv.Itoa(k))
}

func vrtSpec(a, o, s int, keys string, strMode int, numForms int, flags int) {}
func vrtNested(maxLen int)                                                   {}
func vrtNumRange(lo, hi int)                                                 {}
func vrtStrAlphabet(alts string)                                             {}
func vrtMonitor(on bool)                                                     {}
func vrtMaxAlloc(n int)                                                      {}
func vrtBudget(n int)                                                        {}
func vrtReach(tag string)                                                    {}
func vrtSteps() int                                                          { return 0 }
func vrtSymbolic() bool                                                      { return false }
func vrtTier() int {
	if os.Getenv("VERIF_TIER") == "thorough" {
		return 1
	}
	return 0
}

// tq picks a bound by tier: q in the quick tier, t in the thorough tier.
func tq(q, t int) int {
	if vrtTier() == 0 {
		return q
	}
	return t
}

func vrtEventCount(kind string) int { return 0 }
func vrtUntouched(v any) bool       { return true }

func vrtKnown(id string, inRegion bool) bool { return inRegion }

// vrtDescribe renders a native outcome for replay reports (never executed symbolically).
func vrtDescribe(expr string, got any, err error, want any) string {
	g, _ := json.Marshal(got)
	w, _ := json.Marshal(want)
	return fmt.Sprintf("native: %s => got %s err=%v want %s", expr, g, err, w)
}

func vrtNote(msg string) { vrtS.notes = append(vrtS.notes, msg) }

type vrtTree struct {
	T     string `json:"t"`
	V     any    `json:"v"`
	K     any    `json:"k"`
	X     string `json:"x"`
	Spare bool   `json:"spare"`
	raw   []byte
}

func vrtBuild(raw json.RawMessage) any {
	var t struct {
		T     string          `json:"t"`
		V     json.RawMessage `json:"v"`
		K     json.RawMessage `json:"k"`
		X     string          `json:"x"`
		Spare bool            `json:"spare"`
	}
	if err := json.Unmarshal(raw, &t); err != nil {
		panic(vrtAbort{"bad tree: " + err.Error()})
	}
	switch t.T {
	case "null":
		return nil
	case "bool":
		var b bool
		json.Unmarshal(t.V, &b)
		return b
	case "str":
		b, _ := hex.DecodeString(t.X)
		return string(b)
	case "jnum":
		var s string
		json.Unmarshal(t.V, &s)
		return json.Number(s)
	case "int":
		var k, s string
		json.Unmarshal(t.K, &k)
		json.Unmarshal(t.V, &s)
		switch k {
		case "uint", "uint8", "uint16", "uint32", "uint64":
			u, _ := strconv.ParseUint(s, 10, 64)
			switch k {
			case "uint":
				return uint(u)
			case "uint8":
				return uint8(u)
			case "uint16":
				return uint16(u)
			case "uint32":
				return uint32(u)
			}
			return u
		}
		i, _ := strconv.ParseInt(s, 10, 64)
		switch k {
		case "int8":
			return int8(i)
		case "int16":
			return int16(i)
		case "int32":
			return int32(i)
		case "int64":
			return i
		}
		return int(i)
	case "float":
		var k, s string
		json.Unmarshal(t.K, &k)
		json.Unmarshal(t.V, &s)
		var f float64
		switch s {
		case "NaN":
			f = math.NaN()
		case "+Inf":
			f = math.Inf(1)
		case "-Inf":
			f = math.Inf(-1)
		default:
			f, _ = strconv.ParseFloat(s, 64)
		}
		if k == "float32" {
			return float32(f)
		}
		return f
	case "dec":
		var s string
		json.Unmarshal(t.V, &s)
		d, _ := decimal128.Parse(s)
		return d
	case "arr":
		var elems []json.RawMessage
		json.Unmarshal(t.V, &elems)
		n := len(elems)
		c := n
		if t.Spare {
			c = n + 1
		}
		a := make([]any, n, c)
		for i, e := range elems {
			a[i] = vrtBuild(e)
		}
		if c > n {
			a[:c][n] = "<spare>"
		}
		return a
	case "obj":
		var ks []string
		var vs []json.RawMessage
		json.Unmarshal(t.K, &ks)
		json.Unmarshal(t.V, &vs)
		m := make(map[string]any, len(ks))
		for i, k := range ks {
			m[k] = vrtBuild(vs[i])
		}
		return m
	case "foreign":
		var k string
		json.Unmarshal(t.K, &k)
		switch k {
		case "foreignStruct":
			return vrtForeign{}
		case "foreignPtr":
			return &vrtForeign{}
		case "[]string":
			return []string{"x"}
		case "map[string]string":
			return map[string]string{"k": "v"}
		}
	}
	panic(vrtAbort{"unknown tree type " + t.T})
}

func vrtDoc(name string, depth int, universe int, childUniverse int) any {
	d := vrtNext("doc")
	return vrtBuild(d.V)
}

// vrtTokenExpr: an expression made of at most k tokens from the alphabet
// (texts separated by \x1f), joined by single spaces.
func vrtTokenExpr(k int, alphabet string) string {
	d := vrtNext("tokens")
	var s string
	json.Unmarshal(d.V, &s)
	vrtTokens = strings.Split(s, " ")
	if s == "" {
		vrtTokens = nil
	}
	return s
}

var vrtTokens []string

func vrtTokenText(i int) string {
	if i < len(vrtTokens) {
		return vrtTokens[i]
	}
	return ""
}

func vrtTokensUsed() int { return 0 }

func vrtTokensSoFar() string { return strings.Join(vrtTokens, " ") }

func vrtAssume(c bool) {
	if !c {
		panic(vrtAbort{"assumption false in replay"})
	}
}

func vrtAssert(c bool, msg string) {
	if !c {
		vrtS.failed = append(vrtS.failed, msg)
	}
}

func vrtMagic(format string, ints ...int) string {
	d := vrtNext("magic")
	_ = d
	args := make([]any, len(ints))
	for i, v := range ints {
		args[i] = v
	}
	return fmt.Sprintf(format, args...)
}

func vrtPanics(f func()) (p bool) {
	defer func() {
		if r := recover(); r != nil {
			if _, ok := r.(vrtAbort); ok {
				panic(r)
			}
			p = true
		}
	}()
	f()
	return false
}

func vrtValidUTF8(s string) bool { return utf8.ValidString(s) }

func vrtSameObject(a, b any) bool {
	switch x := a.(type) {
	case []any:
		y, ok := b.([]any)
		if !ok || len(x) != len(y) {
			return false
		}
		if len(x) == 0 {
			return cap(x) == cap(y)
		}
		return &x[0] == &y[0]
	case map[string]any:
		y, ok := b.(map[string]any)
		if !ok {
			return false
		}
		return fmt.Sprintf("%p", x) == fmt.Sprintf("%p", y)
	}
	return false
}

var _ = strings.Split
