package jmespath

// C20: equality is a deep, type-strict equivalence and truthiness is uniform.

func c20Spec() {
	vrtSpec(tq(2, 3), 2, 1, "a,b", smASCII, nfInt|nfDot|nfFrac|nfExp, 0)
	vrtNumRange(-1, 2)
	vrtNested(tq(1, 2))
}

func c20Eq(x, y any) bool {
	got, err := Search("a == b", map[string]any{"a": x, "b": y})
	vrtAssert(err == nil, "== never fails")
	b, ok := got.(bool)
	vrtAssert(ok, "== yields a boolean")
	return b
}

// H_C20_laws: reflexive, symmetric, agrees with the reference relation,
// != is the negation, contains uses the same relation.
func H_C20_laws() {
	c20Spec()
	depth := 1
	if vrtTier() == 1 {
		depth = 2
	}
	x := vrtDoc("x", depth, uJSON, uJSON)
	y := vrtDoc("y", depth, uJSON, uJSON)
	exy := c20Eq(x, y)
	eyx := c20Eq(y, x)
	vrtAssert(exy == eyx, "== is symmetric")
	vrtAssert(c20Eq(x, x), "== is reflexive")
	vrtAssert(exy == refEqual(x, y), "== is deep, type-strict equality with numbers by value")
	ne, err := Search("a != b", map[string]any{"a": x, "b": y})
	vrtAssert(err == nil && ne == any(!exy), "!= is the exact negation of ==")
	c, err := Search("contains(a, b)", map[string]any{"a": []any{x}, "b": y})
	vrtAssert(err == nil && c == any(exy), "contains uses the same relation")
	if refTypeName(x) != refTypeName(y) {
		vrtAssert(!exy, "values of different JSON types are never equal")
	}
}

// H_C20_transitive: x==y and y==z imply x==z.
func H_C20_transitive() {
	c20Spec()
	x := vrtDoc("x", 1, uJSON, uScalar)
	y := vrtDoc("y", 1, uJSON, uScalar)
	z := vrtDoc("z", 1, uJSON, uScalar)
	if c20Eq(x, y) && c20Eq(y, z) {
		vrtAssert(c20Eq(x, z), "== is transitive")
	}
}

// H_C20_truthy: exactly null, false, "", [] and {} are false-like; !, &&, ||
// and filters use that one rule; && and || return an operand unchanged.
func H_C20_truthy() {
	c20Spec()
	x := vrtDoc("x", 1, uJSON, uJSON)
	y := vrtDoc("y", 1, uJSON, uJSON)
	doc := map[string]any{"a": x, "b": y}
	t := refTruthy(x)
	n, err := Search("!a", doc)
	vrtAssert(err == nil && n == any(!t), "! negates truthiness")
	and, err := Search("a && b", doc)
	vrtAssert(err == nil, "&& never fails")
	or, err2 := Search("a || b", doc)
	vrtAssert(err2 == nil, "|| never fails")
	if t {
		vrtAssert(refEqual(and, y) && (y == nil || vrtSameOrScalar(and, y)), "a && b is b when a is true-like")
		vrtAssert(refEqual(or, x) && vrtSameOrScalar(or, x), "a || b is a when a is true-like")
	} else {
		vrtAssert(refEqual(and, x) && (x == nil || vrtSameOrScalar(and, x)), "a && b is a when a is false-like")
		vrtAssert(refEqual(or, y) && (y == nil || vrtSameOrScalar(or, y)), "a || b is b when a is false-like")
	}
	f, err := Search("[?@]", []any{x})
	vrtAssert(err == nil, "filter never fails")
	fa, _ := f.([]any)
	if t {
		vrtAssert(len(fa) == 1, "filter keeps true-like elements")
	} else {
		vrtAssert(len(fa) == 0, "filter drops false-like elements")
	}
	// a filter followed by a projection uses the same rule
	fp, err := Search("[?@].length(to_array(@))", []any{x})
	vrtAssert(err == nil, "filter + projection never fails")
	fpa, _ := fp.([]any)
	if t {
		vrtAssert(len(fpa) == 1, "filter projection keeps true-like elements")
	} else {
		vrtAssert(len(fpa) == 0, "filter projection drops false-like elements")
	}
	fo, err := Search("[?p].q", []any{map[string]any{"p": x, "q": "v"}})
	vrtAssert(err == nil, "filter on a member + projection never fails")
	foa, _ := fo.([]any)
	vrtAssert((len(foa) == 1) == t, "filter + projection uses the one truthiness rule")
	// zero is true-like
	z, err := Search("!`0` || !`0.0`", nil)
	vrtAssert(err == nil && z == any(false), "zero is not false-like")
}

// vrtSameOrScalar: containers must be the very same object (returned unchanged).
func vrtSameOrScalar(x, y any) bool {
	switch y.(type) {
	case []any, map[string]any:
		return vrtSameObject(x, y)
	}
	return true
}

// H_C20_computed: truthiness and equality do not depend on where a number
// comes from: a zero (or any number) produced by arithmetic, sum, avg,
// to_number or unary minus behaves like the literal.
var c20Computed = []string{"a - a", "a * `0`", "sum(`[]`)", "sum([a, -a])", "to_number('0')", "-(a - a)", "a % a", "avg([a, -a])", "a - b", "abs(a - a)", "`0`", "`0.0`", "`0e0`", "`-0`", "to_number('-0')", "`1e2` - `100`"}

func H_C20_computed() {
	e := c20Computed[vrtChoose("expr", len(c20Computed))]
	vrtNote("template:" + e)
	a := int64(1 + vrtChoose("a", 3))
	doc := map[string]any{"a": a, "b": a, "rows": []any{map[string]any{"x": a, "y": a, "id": int64(1)}, map[string]any{"x": a, "y": a + 1, "id": int64(2)}}}
	n, err := Search("!("+e+")", doc)
	vrtAssert(err == nil && n == any(false), "a number, zero included, is true-like")
	or, err := Search("("+e+") || 'right'", doc)
	vrtAssert(err == nil && or != any("right"), "zero || x is zero")
	and, err := Search("("+e+") && 'right'", doc)
	vrtAssert(err == nil && and == any("right"), "zero && x is x")
	eq, err := Search("("+e+") == `0`", doc)
	vrtAssert(err == nil && eq == any(true), "every spelling and origin of zero equals zero")
	g, err := Search("rows[?x - y].id", doc)
	vrtAssert(err == nil && refEqual(g, []any{int64(1), int64(2)}), "a computed zero keeps its row")
	ex, err := Search("[`100` == `1e2`, `1E2` == `1e2`, `0` == `-0`, `100.0` == `1e2`, `1e2` == `100`, `10e1` != `100`]", nil)
	vrtAssert(err == nil && refEqual(ex, []any{true, true, true, true, true, false}), "numbers are compared by value in every spelling")
}

// H_C20_literals: equality does not depend on whether its operands are
// written in the expression or come from the data: every pair of literal
// texts (numbers in several spellings, alone and inside arrays and objects)
// compared as literal == literal, literal == data, data == data and through
// !=, contains and a filter gives the one answer of the reference relation.
var c20Lits = []string{
	"`1`", "`1.0`", "`1e0`", "`[1]`", "`[1.0]`", "`[1, 2]`", "`[1.0, 2e0]`", "`{\"a\":10}`", "`{\"a\":1e1}`", "`{\"a\":1e1,\"b\":[0]}`", "`{\"b\":[-0],\"a\":10.0}`",
	"`[]`", "`{}`", "`null`", "`\"1\"`", "'1'", "`[[1]]`", "`[[1.00]]`", "`true`", "`[null]`", "`[0]`", "`[-0]`", "`[\"1\"]`", "`{\"a\":null}`", "`{\"b\":null}`", "`0.10`", "`1e-1`",
}

func H_C20_literals() {
	p := c20Lits[vrtChoose("p", len(c20Lits))]
	q := c20Lits[vrtChoose("q", len(c20Lits))]
	vrtNote("template:literal pair " + p + " " + q)
	x, err := Search(p, nil)
	vrtAssert(err == nil, "literal evaluates")
	y, err := Search(q, nil)
	vrtAssert(err == nil, "literal evaluates")
	want := refEqual(x, y)
	doc := map[string]any{"a": x, "b": y}
	for _, e := range []string{p + " == " + q, p + " == b", "a == " + q, "a == b", "!(" + p + " != " + q + ")", "contains([" + p + "], " + q + ")", "contains([a], " + q + ")", "length([[" + p + "]][?@[0] == " + q + "]) == `1`", "(" + p + " == " + q + ") && `true`"} {
		got, err := Search(e, doc)
		vrtAssert(err == nil, "comparison never fails")
		vrtAssert(got == any(want), "equality of two values depends on how they are written: "+e)
	}
}
