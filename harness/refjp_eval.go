package jmespath

import (
	"encoding/json"

	"github.com/woodsbury/decimal128"
)

// Reference evaluation. Values are the same Go values the library uses (nil,
// bool, string, numbers, []any, map[string]any); numbers are compared and
// computed through decimal128 exactly like the property demands, whatever
// their carrier. refUnspec is returned (with ecUnspecified) where the
// specification, as far as the corpus pins it, does not determine the result.

type refScope struct {
	parent *refScope
	names  []string
	vals   []any
}

func (s *refScope) get(name string) (any, bool) {
	for s != nil {
		for i, n := range s.names {
			if n == name {
				return s.vals[i], true
			}
		}
		s = s.parent
	}
	return nil, false
}

type refExpref struct {
	node  *rnode
	scope *refScope
}

type refEnv struct {
	root   any
	nullMS bool // a multi-select was evaluated on a null current node
}

// refSearch is the reference for Search(expr, doc).
func refSearch(expr string, doc any) (any, int) {
	v, ec, _ := refSearchEnv(expr, doc)
	return v, ec
}

func refSearchEnv(expr string, doc any) (any, int, *refEnv) {
	env := &refEnv{root: doc}
	n, ec := refParse(expr)
	if ec != ecNone {
		return nil, ec, env
	}
	v, ec := env.eval(n, doc, nil)
	return v, ec, env
}

func refIsNumber(v any) bool {
	switch v.(type) {
	case json.Number, decimal128.Decimal, float32, float64, int, int8, int16, int32, int64, uint, uint8, uint16, uint32, uint64:
		return true
	}
	return false
}

// refDec converts any number carrier to a decimal exactly (no binary float detour
// for text); ok=false if v is not a (valid) number.
func refDec(v any) (decimal128.Decimal, bool) {
	switch x := v.(type) {
	case decimal128.Decimal:
		return x, true
	case json.Number:
		d, err := decimal128.Parse(string(x))
		return d, err == nil
	case float32:
		return decimal128.FromFloat32(x), true
	case float64:
		return decimal128.FromFloat64(x), true
	case int:
		return decimal128.FromInt64(int64(x)), true
	case int8:
		return decimal128.FromInt64(int64(x)), true
	case int16:
		return decimal128.FromInt64(int64(x)), true
	case int32:
		return decimal128.FromInt64(int64(x)), true
	case int64:
		return decimal128.FromInt64(x), true
	case uint:
		return decimal128.FromUint64(uint64(x)), true
	case uint8:
		return decimal128.FromUint64(uint64(x)), true
	case uint16:
		return decimal128.FromUint64(uint64(x)), true
	case uint32:
		return decimal128.FromUint64(uint64(x)), true
	case uint64:
		return decimal128.FromUint64(x), true
	}
	return decimal128.Decimal{}, false
}

func refTruthy(v any) bool {
	switch x := v.(type) {
	case nil:
		return false
	case bool:
		return x
	case string:
		return len(x) > 0
	case []any:
		return len(x) > 0
	case map[string]any:
		return len(x) > 0
	}
	return true
}

// refEqual is deep, type-strict equality; numbers by value.
func refEqual(x, y any) bool {
	if vrtSameObject(x, y) {
		return true // the very same array / object / undecided value
	}
	switch a := x.(type) {
	case nil:
		return y == nil
	case bool:
		b, ok := y.(bool)
		return ok && a == b
	case string:
		b, ok := y.(string)
		return ok && a == b
	case []any:
		b, ok := y.([]any)
		if !ok || len(a) != len(b) {
			return false
		}
		for i := range a {
			if !refEqual(a[i], b[i]) {
				return false
			}
		}
		return true
	case map[string]any:
		b, ok := y.(map[string]any)
		if !ok || len(a) != len(b) {
			return false
		}
		for k, av := range a {
			bv, ok := b[k]
			if !ok || !refEqual(av, bv) {
				return false
			}
		}
		return true
	}
	if da, ok := refDec(x); ok {
		db, ok := refDec(y)
		return ok && da.Equal(db)
	}
	// number texts beyond the decimal range (1e10101): the same text is the same number
	if a, ok := x.(json.Number); ok && !vrtSymbolic() {
		if b, ok := y.(json.Number); ok {
			return a == b
		}
	}
	return false
}

func refTypeName(v any) string {
	switch v.(type) {
	case nil:
		return "null"
	case bool:
		return "boolean"
	case string:
		return "string"
	case []any:
		return "array"
	case map[string]any:
		return "object"
	}
	if refIsNumber(v) {
		return "number"
	}
	return "other"
}

func (e *refEnv) eval(n *rnode, cur any, sc *refScope) (any, int) {
	switch n.kind {
	case rnIdentity:
		return cur, ecNone
	case rnRoot:
		return e.root, ecNone
	case rnLiteral:
		return n.val, ecNone
	case rnField:
		if m, ok := cur.(map[string]any); ok {
			return m[n.str], ecNone
		}
		return nil, ecNone
	case rnVar:
		v, ok := sc.get(n.str)
		if !ok {
			return nil, ecUndefVar
		}
		return v, ecNone
	case rnIndex:
		a, ok := cur.([]any)
		if !ok {
			return nil, ecNone
		}
		i := n.num[0]
		if i < 0 {
			if i < -len(a) {
				return nil, ecNone
			}
			i += len(a)
		}
		if i >= len(a) {
			return nil, ecNone
		}
		return a[i], ecNone
	case rnSlice:
		step := 1
		if n.has[2] {
			step = n.num[2]
		}
		switch x := cur.(type) {
		case []any:
			idx := refSliceIndices(len(x), n.num[0], n.num[1], step, n.has[0], n.has[1])
			out := make([]any, 0, len(idx))
			for _, i := range idx {
				out = append(out, x[i])
			}
			return out, ecNone
		case string:
			cps := cpSplit(x)
			idx := refSliceIndices(len(cps), n.num[0], n.num[1], step, n.has[0], n.has[1])
			s := ""
			for _, i := range idx {
				s += cps[i]
			}
			return s, ecNone
		}
		return nil, ecNone
	case rnSub, rnIndexExpr, rnPipe:
		l, ec := e.eval(n.kids[0], cur, sc)
		if ec != ecNone {
			return nil, ec
		}
		r := n.kids[1]
		if l == nil {
			switch r.kind {
			case rnMultiList, rnMultiHash:
				e.nullMS = true
				if n.kind == rnPipe {
					return e.multiSelect(r, l, sc) // corpus: `null` | [@] is [null]
				}
				return nil, ecNone // corpus: missing.{foo: bar} is null
			case rnCall:
				if n.kind != rnPipe {
					return nil, ecUnspecified // a.f(@) with a null: short-circuit or call?
				}
			}
		}
		return e.eval(r, l, sc)
	case rnProjection:
		l, ec := e.eval(n.kids[0], cur, sc)
		if ec != ecNone {
			return nil, ec
		}
		if s, ok := l.(string); ok && n.str == "slice" {
			// a slice of a string yields a string, not a projection
			return e.eval(n.kids[1], s, sc)
		}
		a, ok := l.([]any)
		if !ok {
			return nil, ecNone
		}
		return e.project(a, n.kids[1], sc)
	case rnValueProjection:
		l, ec := e.eval(n.kids[0], cur, sc)
		if ec != ecNone {
			return nil, ec
		}
		m, ok := l.(map[string]any)
		if !ok {
			return nil, ecNone
		}
		vals := make([]any, 0, len(m))
		for _, v := range m {
			vals = append(vals, v)
		}
		return e.project(vals, n.kids[1], sc)
	case rnFlatten:
		l, ec := e.eval(n.kids[0], cur, sc)
		if ec != ecNone {
			return nil, ec
		}
		a, ok := l.([]any)
		if !ok {
			return nil, ecNone
		}
		out := make([]any, 0, len(a))
		for _, v := range a {
			if inner, ok := v.([]any); ok {
				out = append(out, inner...)
			} else {
				out = append(out, v)
			}
		}
		return out, ecNone
	case rnFilterProjection:
		l, ec := e.eval(n.kids[0], cur, sc)
		if ec != ecNone {
			return nil, ec
		}
		a, ok := l.([]any)
		if !ok {
			return nil, ecNone
		}
		out := make([]any, 0, len(a))
		for _, v := range a {
			c, ec := e.eval(n.kids[2], v, sc)
			if ec != ecNone {
				return nil, ec
			}
			if !refTruthy(c) {
				continue
			}
			r, ec := e.eval(n.kids[1], v, sc)
			if ec != ecNone {
				return nil, ec
			}
			if r != nil {
				out = append(out, r)
			}
		}
		return out, ecNone
	case rnOr:
		l, ec := e.eval(n.kids[0], cur, sc)
		if ec != ecNone {
			return nil, ec
		}
		if refTruthy(l) {
			return l, ecNone
		}
		return e.eval(n.kids[1], cur, sc)
	case rnAnd:
		l, ec := e.eval(n.kids[0], cur, sc)
		if ec != ecNone {
			return nil, ec
		}
		if !refTruthy(l) {
			return l, ecNone
		}
		return e.eval(n.kids[1], cur, sc)
	case rnNot:
		l, ec := e.eval(n.kids[0], cur, sc)
		if ec != ecNone {
			return nil, ec
		}
		return !refTruthy(l), ecNone
	case rnCmp:
		l, ec := e.eval(n.kids[0], cur, sc)
		if ec != ecNone {
			return nil, ec
		}
		r, ec := e.eval(n.kids[1], cur, sc)
		if ec != ecNone {
			return nil, ec
		}
		switch n.str {
		case "==":
			return refEqual(l, r), ecNone
		case "!=":
			return !refEqual(l, r), ecNone
		}
		ld, lok := refDec(l)
		rd, rok := refDec(r)
		if !lok || !rok {
			if _, ls := l.(string); ls {
				if _, rs := r.(string); rs {
					return nil, ecUnspecified // ordering of strings is left open
				}
			}
			return nil, ecNone
		}
		c := decimal128.Compare(ld, rd)
		switch n.str {
		case "<":
			return c < 0, ecNone
		case "<=":
			return c <= 0, ecNone
		case ">":
			return c > 0, ecNone
		}
		return c >= 0, ecNone
	case rnArith:
		l, ec := e.eval(n.kids[0], cur, sc)
		if ec != ecNone {
			return nil, ec
		}
		r, ec := e.eval(n.kids[1], cur, sc)
		if ec != ecNone {
			return nil, ec
		}
		return refArith(n.str, l, r)
	case rnUnary:
		v, ec := e.eval(n.kids[0], cur, sc)
		if ec != ecNone {
			return nil, ec
		}
		d, ok := refDec(v)
		if !ok {
			return nil, ecUnspecified
		}
		if n.str == "+" {
			return v, ecNone
		}
		if d.IsZero() {
			return d, ecNone
		}
		return d.Neg(), ecNone
	case rnMultiList, rnMultiHash:
		if cur == nil {
			// pinned only behind a pipe ([null]) and behind a dot (null); see rnSub
			e.nullMS = true
			return nil, ecUnspecified
		}
		return e.multiSelect(n, cur, sc)
	case rnLet:
		ns := &refScope{parent: sc}
		nb := len(n.bindings)
		for i := 0; i < nb; i++ {
			v, ec := e.eval(n.kids[i], cur, sc) // bindings do not see each other
			if ec != ecNone {
				return nil, ec
			}
			// a later binding of the same name replaces the earlier one
			replaced := false
			for j, nm := range ns.names {
				if nm == n.bindings[i] {
					ns.vals[j] = v
					replaced = true
				}
			}
			if !replaced {
				ns.names = append(ns.names, n.bindings[i])
				ns.vals = append(ns.vals, v)
			}
		}
		return e.eval(n.kids[nb], cur, ns)
	case rnExpref:
		return &refExpref{node: n.kids[0], scope: sc}, ecNone
	case rnCall:
		return e.call(n, cur, sc)
	}
	return nil, ecUnspecified
}

func (e *refEnv) multiSelect(n *rnode, cur any, sc *refScope) (any, int) {
	if n.kind == rnMultiList {
		out := make([]any, 0, len(n.kids))
		for _, k := range n.kids {
			v, ec := e.eval(k, cur, sc)
			if ec != ecNone {
				return nil, ec
			}
			out = append(out, v)
		}
		return out, ecNone
	}
	out := make(map[string]any, len(n.kids))
	for i, k := range n.kids {
		v, ec := e.eval(k, cur, sc)
		if ec != ecNone {
			return nil, ec
		}
		out[n.keys[i]] = v
	}
	return out, ecNone
}

func (e *refEnv) project(a []any, rhs *rnode, sc *refScope) (any, int) {
	out := make([]any, 0, len(a))
	for _, v := range a {
		r, ec := e.eval(rhs, v, sc)
		if ec != ecNone {
			return nil, ec
		}
		if r != nil {
			out = append(out, r)
		}
	}
	return out, ecNone
}

// refArith: exact decimal arithmetic; division by zero and overflow are
// not-a-number errors. Operands that are not numbers are left open.
func refArith(op string, l, r any) (any, int) {
	ld, lok := refDec(l)
	rd, rok := refDec(r)
	if !lok || !rok {
		return nil, ecUnspecified
	}
	var res decimal128.Decimal
	switch op {
	case "+":
		res = ld.Add(rd)
	case "-":
		res = ld.Sub(rd)
	case "*":
		res = ld.Mul(rd)
	case "/":
		res = ld.Quo(rd)
	case "//", "%":
		if rd.IsZero() {
			return nil, ecNaN
		}
		// pinned only where flooring and truncation agree
		if ld.Signbit() != rd.Signbit() && !ld.IsZero() {
			return nil, ecUnspecified
		}
		q, m := ld.QuoRem(rd)
		if op == "//" {
			res = q
		} else {
			res = m
		}
	}
	if res.IsNaN() || res.IsInf(0) {
		return nil, ecNaN
	}
	return res, ecNone
}
