package jmespath

import "encoding/json"

// C09: cost is bounded by sizes, never by the magnitude of a number.
//
// The engine's cost monitor raises an event when (a) a path needs more than
// the per-path budget of instructions or symbolic loop decisions, or (b) a
// make / Builder.Grow / append is asked for a size that is not bounded by the
// (small, concrete) data sizes of the path. Integer parameters range over all
// of int64, so an event whose path condition admits a huge parameter shows
// that the magnitude drives the cost.

// H_C09_slice: slice start/stop/step over all of int64 on arrays and strings.
func H_C09_slice() {
	vrtMaxAlloc(16)
	vrtBudget(60000)
	var doc any
	n := vrtChoose("n", 4)
	if vrtChoose("kind", 2) == 0 {
		a := make([]any, n)
		for i := range a {
			a[i] = int64(i)
		}
		doc = a
	} else {
		doc = vrtStrN("s", n, smASCII)
	}
	k := vrtChoose("pattern", len(c12Patterns))
	expr, _, _, _, _, _ := c12Template(k)
	_, err := Search(expr, doc)
	vrtAssert(err == nil, "slice evaluates")
	vrtReach("done")
}

var c09Params = []string{
	"find_first(a, b, c)", "find_first(a, b, c, d)", "find_last(a, b, c)", "find_last(a, b, c, d)",
	"replace(a, b, 'zz', c)", "split(a, b, c)", "split(a, '', c)", "a[c]",
	// a pad that cannot make the result grow: the width may not drive the time either
	"pad_left(a, c, '')", "pad_right(a, c, '')",
}

// H_C09_params: numeric arguments (offsets, counts) over the whole 64-bit
// range in every integer-valued carrier.
func H_C09_params() {
	vrtMaxAlloc(16)
	vrtBudget(60000)
	vrtSpec(tq(2, 3), 1, tq(3, 4), "x", smASCII, nfInt, 0)
	vrtNumRange(-9223372036854775807-1, 9223372036854775807)
	k := vrtChoose("expr", len(c09Params))
	vrtNote("template:" + c09Params[k])
	carriers := uJNum | uInt | uInt64 | uUint64 | uDec
	doc := map[string]any{
		"a": vrtStr("a", 3, smASCII),
		"b": vrtStr("b", 1, smASCII),
		"c": vrtDoc("c", 0, carriers, carriers),
		"d": vrtDoc("d", 0, carriers, carriers),
	}
	_, _ = Search(c09Params[k], doc)
	vrtReach("done")
}

// H_C09_index: index literals over all of int64.
func H_C09_index() {
	vrtMaxAlloc(16)
	vrtBudget(60000)
	i := vrtInt("i")
	n := vrtChoose("n", 3)
	a := make([]any, n)
	for j := range a {
		a[j] = int64(j)
	}
	got, err := Search(vrtMagic("[%d]", i), a)
	vrtAssert(err == nil, "index evaluates")
	if i >= 0 && i < n {
		vrtAssert(got == any(int64(i)), "index value")
	} else if i < 0 && i >= -n {
		vrtAssert(got == any(int64(i+n)), "negative index value")
	} else {
		vrtAssert(got == nil, "out-of-range index is null")
	}
}

// H_C09_spellings: numbers whose spelling carries a huge exponent (or many
// digits) in the positions where an integer is required: the cost may not
// follow the exponent's value.
var c09Spellings = []string{
	"0e900000000000", "-0E+9223372036854775807", "0e4000000000000000000", "1e400", "1e-400", "0.0e99999999999", "1e18", "9e18", "1e19", "-1e19",
	"0e-999999999999", "0.000000000000000000000000000000000000000000000001e48", "1000000000000000000000000000000000000000000e-42", "1E+0", "00",
}

func H_C09_spellings() {
	vrtMaxAlloc(16)
	vrtBudget(60000)
	k := vrtChoose("expr", len(c09Params))
	vrtNote("template:" + c09Params[k])
	c := json.Number(c09Spellings[vrtChoose("c", len(c09Spellings))])
	d := json.Number(c09Spellings[vrtChoose("d", len(c09Spellings))])
	doc := map[string]any{"a": "abcabc", "b": "c", "c": c, "d": d}
	_, _ = Search(c09Params[k], doc)
	vrtReach("done")
}

// H_C09_nesting: the cost of a nested expression grows with its length, not
// exponentially with its depth: each construct nested 26 deep must evaluate
// within the instruction budget (2^26 evaluations would not).
var c09Nest = [][3]string{
	{"(", "a", ")[:]"}, {"reverse(", "a", ")[:]"}, {"(", "a", ")[*]"}, {"(", "a", ")[]"}, {"[", "a", "][0]"}, {"not_null(", "a", ")"},
	{"(", "a", " | @)"}, {"(", "a", "[?@ || `true`])"}, {"to_array(", "a", ")[0:]"}, {"{k: ", "a", "}.k"}, {"(let $v = ", "a", " in $v)"}, {"sort(", "a", ")[:]"}, {"(", "a", ")[::1]"}, {"map(&@, ", "a", ")[:]"},
	// a bound value that is read more than once is still evaluated once per let
	{"(let $v = ", "a", " in ($v && $v))"}, {"(let $v = ", "a", " in [$v, $v][1])"}, {"(let $v = ", "a", ", $w = `1` in {p: $v, q: $v}.q)"}, {"(let $v = ", "a", " in $v[?$v])"},
	{"map(&[@, @][0], ", "a", ")"}, {"(", "a", " | [@, @][1])"}, {"(let $v = ", "a", " in (let $w = $v in [$w, $v, $w][2]))"},
}

func H_C09_nesting() {
	vrtMaxAlloc(64)
	vrtBudget(400000)
	n := c09Nest[vrtChoose("construct", len(c09Nest))]
	expr := n[1]
	for i := 0; i < 26; i++ {
		expr = n[0] + expr + n[2]
	}
	vrtNote("template:" + n[0] + "..." + n[2] + " x26")
	_, err := Search(expr, map[string]any{"a": []any{"x", "y"}})
	vrtAssert(err == nil, "nested expression evaluates")
	vrtReach("done")
}
