package jmespath

import (
	"strings"

	"github.com/woodsbury/jmespath/internal/lexer"
)

// C04: Compile accepts exactly the JMESPath grammar.

var c04Alphabet = []string{
	"a", "b", "abs", "sort_by", "map", "merge", "nosuch", "\"q\"", "'r'", "`1`", "0", "1", "-1", "$v", "$", "@", "&",
	".", "*", "[", "]", "[*]", ".*", "[?", "[]", "{", "}", "(", ")", ",", ":", "|", "||", "&&", "!", "==", "<", "+", "-", "/", "//", "%", "=", "let", "in",
}

// c04Agree compares Compile with the reference parser on one expression.
func c04Agree(expr string, cerr error, ec int) {
	if ec == ecUnspecified {
		return
	}
	if ec == ecNone {
		vrtAssert(cerr == nil, "a member of the grammar is rejected")
		return
	}
	vrtAssert(cerr != nil, "a string outside the grammar is accepted")
	if cerr == nil {
		return
	}
	got := ecOfError(cerr)
	switch ec {
	case ecSyntax:
		// a malformed expression must be a static error; multi-fault strings may
		// report another static category that is also present
		vrtAssert(got == ecSyntax || got == ecArity || got == ecUnknownFn || got == ecType || got == ecValue, "rejected with a non-static category")
	case ecType:
		vrtAssert(got == ecType || got == ecSyntax, "misplaced expression reference: invalid-type (or syntax)")
	case ecArity:
		// a call with the wrong argument count may also lack / misplace its
		// expression reference: any of the faults present is accepted
		vrtAssert(got == ecArity || got == ecType || got == ecSyntax, "static fault category differs from the grammar's")
	default:
		vrtAssert(got == ec || got == ecSyntax, "static fault category differs from the grammar's")
	}
}

// H_C04_tokens: every sequence of at most K tokens (lazily chosen, so that a
// parser that has already rejected a prefix does not multiply the paths).
// Also C03 (no panic in the parser) and C09 (the parser consumes a token per
// step: bounded Next calls).
func H_C04_tokens() {
	k := 3
	if vrtTier() == 1 {
		k = 4
	}
	expr := vrtTokenExpr(k, strings.Join(c04Alphabet, "\x1f"))
	_, cerr := Compile(expr)
	vrtAssert(vrtTokensUsed() <= k+3, "the parser asked for more tokens than the expression has")
	var ec int
	if vrtSymbolic() {
		_, ec = refParseLazy(vrtTokenText)
	} else {
		_, ec = refParse(expr)
	}
	shown := vrtTokensSoFar()
	vrtNote("template:" + shown)
	vrtKnown("C04-F1", knownSplitWildcard(shown))
	c04Agree(expr, cerr, ec)
	vrtReach("compared")
}

// knownSplitWildcard is the input region of known finding C04-F1: the
// terminals of "[" "*" "]" or "." "*" separated by whitespace.
func knownSplitWildcard(expr string) bool {
	return strings.Contains(expr, ". *") || strings.Contains(expr, "[ *") || strings.Contains(expr, "* ]") || strings.Contains(expr, ".\t*") || strings.Contains(expr, ".\n*")
}

// H_C04_lexer: the tokeniser agrees with the token specification on arbitrary
// bytes: same token boundaries and classes (after the fusion map), error
// exactly when the text has no tokenisation.
func H_C04_lexer() { c04Lexer(smASCII, 3, 4) }

// H_C04_lexerbytes: the same over arbitrary bytes (multi-byte operators,
// invalid UTF-8), shorter.
func H_C04_lexerbytes() { c04Lexer(smBytes, 2, 3) }

func c04Lexer(mode, quick, thorough int) {
	maxLen := quick
	if vrtTier() == 1 {
		maxLen = thorough
	}
	n := vrtChoose("len", maxLen+1)
	s := vrtStrN("e", n, mode)
	// implementation tokens
	var impl []lexer.Token
	pos := 0
	var lerr error
	for i := 0; i <= n+1; i++ {
		tok, np, err := lexer.VerifNext(s, pos)
		if err != nil {
			lerr = err
			break
		}
		if tok.Type == lexer.EndToken {
			break
		}
		impl = append(impl, tok)
		pos = np
	}
	ref, ok := refLex(s)
	if !ok {
		vrtAssert(lerr != nil, "text without a tokenisation is tokenised")
		return
	}
	vrtAssert(lerr == nil, "tokenisable text is rejected by the lexer")
	if lerr != nil {
		return
	}
	// fuse the reference tokens the way the implementation's lexer does
	var texts []string
	for i := 0; i < len(ref)-1; i++ {
		t := ref[i]
		if t.typ == rtLbracket && i+2 < len(ref) && ref[i+1].typ == rtStar && ref[i+2].typ == rtRbracket && !ref[i+1].space && !ref[i+2].space {
			texts = append(texts, "[*]")
			i += 2
			continue
		}
		if t.typ == rtDot && i+1 < len(ref) && ref[i+1].typ == rtStar && !ref[i+1].space {
			texts = append(texts, ".*")
			i++
			continue
		}
		texts = append(texts, t.text)
	}
	vrtAssert(len(texts) == len(impl), "number of tokens differs from the token specification")
	if len(texts) != len(impl) {
		return
	}
	for i := range impl {
		vrtAssert(impl[i].Value == texts[i], "token boundary differs from the token specification")
	}
	vrtReach("compared")
}

var c04Strings = []string{
	"`\"abc`", "`\"abc\"`", "{a: b c: d}", "{1: a}", "{a: b}", "foo[1:2:[0]", "foo[1:2:|a", "foo[1:2:3]", "\"\\uD83Dzu0041\"", "\"\\uD83D\\uDE00\"", "\"\\uD83D\"",
	"a[ * ]", "a. *", "a[*]", "a.*", "a[ 0 ]", "a[ 1 : 2 ]", "a [0]", "a .b", "a. b", "[ ]", "a[ ?b]", "a[? b ]", "`1` `2`", "a,b", "[a b]", "a[0", "a[0]]", "{a: b,}", "{: b}",
	"let $x = a in $x", "let $x = a $y = b in $x", "let $x a in $x", "let = a in b", "let", "foo.let", "foo.in", "in", "let $in = a in $in",
	"'it\\'s'", "'a\\\\'", "'a\\'", "''", "'\\z'", "\"a\\\"b\"", "\"\\x\"", "\"\\u12\"", "\"\\u12G4\"", "\"\\uDE00\"", "\"\\uD83D\\u0041\"", "`\\``", "`[1,]`", "`{\"a\":}`", "`01`", "`1 2`", "` 1 `", "``", "`tru`",
	"a && ", "&& a", "a ||", "!", "a !b", "a ! b", "(a", "a)", "()", "a()", "abs(a))", "abs((a)", "@.a", "$.a", "@a", "$a.b", "a.$", "a.@", "*.*", "**", "a.**", "a[**]", "a[*]]", "[[*]]", "a[]b", "a[] b",
	"a[?b", "a[?]", "a[?b]]", "a[:]", "a[::]", "a[:::]", "a[1:2:3:4]", "a[1 2]", "a[1,2]", "a[-]", "a[--1]", "a[1-]", "a[1:-]", "a[9999999999999999999]", "a[:9999999999999999999]",
	"&a", "abs(&a)", "sort_by(a, &b)", "sort_by(a, &)", "sort_by(&a, b)", "map(&a, b)", "map(a, &b)", "a == b == c", "a < b < c", "-a", "--a", "- a", "+a", "a - -b", "a -b", "a-b", "a -1", "a-1", "a - 1",
	"'\ufffd'", "\"\ufffd\"", "`\"\ufffd\"`", "a == '\ufffd'", "`[1]]`", "`{\"a\":1}}`", "`null]`", "`1]`", "`[1]] [2`", "`[1] [2]`", "`[1],`", "`1}`",
	// malformed let-expressions (errors under every reading of let / in)
	"let in a", "let $a = a, in $a", "let $a = a, $b = b, in [$a]", "let , $a = a in $a", "let $a = a $b = b in $a", "let $a = a,, $b = b in $a", "foo[?let $a = a, in $a]", "let $a = in $a", "let $a a in $a", "let $a = a in", "let $a = a $a",
	"let $a = a in $a", "let $a = a, $b = b in [$a, $b]",
	"a × b", "a ÷ b", "a − b", "a × ", "\u00a0a", "a\u2003b", "a\tb", "a\x00", "\xff", "a\xffb", "'\xff'", "\"\xff\"", "`\"\xff\"`",
}

// H_C04_strings: a corpus of boundary strings - each is compared with the
// reference grammar on every document-independent aspect (accept / reject).
func H_C04_strings() {
	k := vrtChoose("s", len(c04Strings))
	expr := c04Strings[k]
	vrtNote("template:" + expr)
	_, cerr := Compile(expr)
	_, ec := refParse(expr)
	// let / in as plain identifiers: contextual keywords are left open
	if expr == "let" || expr == "foo.let" || expr == "foo.in" || expr == "in" || expr == "let $in = a in $in" {
		return
	}
	vrtKnown("C04-F1", knownSplitWildcard(expr))
	c04Agree(expr, cerr, ec)
}

var c04JSONTokens = []string{"[", "]", "{", "}", ",", ":", "1", "-0", "1.5", "\"a\"", "null", "true", "false", " ", "01", "\"", "1e", "[]", "{}"}

// H_C04_json: JSON literals made of up to K JSON tokens: Compile accepts the
// literal exactly when the text between the backticks is one JSON value.
func H_C04_json() {
	k := 3
	if vrtTier() == 1 {
		k = 4
	}
	n := 1 + vrtChoose("n", k)
	text := ""
	for i := 0; i < n; i++ {
		text += c04JSONTokens[vrtChoose("tok", len(c04JSONTokens))]
	}
	expr := "`" + text + "`"
	vrtNote("template:" + expr)
	_, cerr := Compile(expr)
	want, ok := refDecodeJSON(text)
	if ok {
		vrtAssert(cerr == nil, "a JSON literal holding a valid JSON text is rejected")
		if cerr == nil {
			got, err := Search(expr, nil)
			vrtAssert(err == nil && refEqual(got, want), "JSON literal evaluates to a different value")
		}
	} else {
		vrtAssert(cerr != nil, "a JSON literal holding malformed JSON is accepted")
		if cerr != nil {
			vrtAssert(ecOfError(cerr) == ecSyntax, "malformed JSON literal must be a syntax error")
		}
	}
}
