package jmespath

// C17: equivalent ways of writing a query give the same answer.
// The implementation is compared with itself: both sides of each identity go
// through the real parser and evaluator.

type c17Identity struct {
	lhs, rhs string
	cond     string // "" | "arrayA": identity holds when a is an array | "nonnull": current node non-null
}

var c17Subs = []string{"b", "a", "b.a", "[0]", "b[0]", "{x: a}", "[a, b]", "b[*]", "a[?b]", "*", "b.*", "@"}

// c17Make instantiates the identity schemata with sub-expression e.
func c17Make(e string) []c17Identity {
	return []c17Identity{
		{"a[*]." + e, "a[*] | [*]." + e, ""},
		{"a[*].b." + e, "a[*].b | [*]." + e, ""},
		{"a[?b]." + e, "a[?b] | [*]." + e, ""},
		{"a[]." + e, "a[] | [*]." + e, ""},
		{"a[1:]." + e, "a[1:] | [*]." + e, "arrayA"},
		{"a.*." + e, "a.* | [*]." + e, ""},
		{"a[*]." + e, "map(&" + e + ", a)[?@ != `null`]", "arrayA"},
		{"a." + e, "a | " + e, "dotpipe"},
		{"(a[*])." + e, "a[*] | " + e, "dotpipe"},
		{"[" + e + ", a]", "concat:[" + e + "]+[a]", "nonnull"},
		{"{k: " + e + "}.k", e, "nonnull"},
		{"a[*] | [0]", "(a[*])[0]", ""},
		{"(a[*].b)." + e, "a[*].b | " + e, "dotpipe"},
		{"(a[?b].a)." + e, "a[?b].a | " + e, "dotpipe"},
		{"(a[].b)." + e, "a[].b | " + e, "dotpipe"},
		{"(a.*.b)." + e, "a.*.b | " + e, "dotpipe"},
		{"(a[1:].b)." + e, "a[1:].b | " + e, "dotpipe"},
	}
}

func c17DotOK(e string) bool {
	// a.e is only well-formed when e starts with an identifier, '*', '[' multi-select or '{'
	switch e {
	case "[0]", "@", "b[0]":
		return e == "b[0]"
	}
	return true
}

// H_C17_identities
func H_C17_identities() {
	vrtSpec(tq(2, 3), 2, 1, "a,b", smASCII, nfInt, 0)
	vrtNumRange(0, 2)
	vrtNested(tq(1, 2))
	e := c17Subs[vrtChoose("sub", len(c17Subs))]
	ids := c17Make(e)
	id := ids[vrtChoose("identity", len(ids))]
	if !c17DotOK(e) {
		// sub-expressions that cannot follow a dot are only used where no dot precedes them
		vrtAssume(id.cond == "nonnull")
	}
	if len(id.rhs) > 7 && id.rhs[:7] == "concat:" {
		vrtAssume(e != "*") // "[*]" is the array wildcard, not a multi-select of *
	}
	if len(id.rhs) > 4 && id.rhs[:4] == "map(" {
		// a multi-select applied to a null element is null behind a dot but is
		// evaluated as an expression reference (corpus: `null` | [@]): the identity
		// is not determined for such e
		vrtAssume(e != "{x: a}" && e != "[a, b]")
	}
	if id.cond == "dotpipe" {
		// a.e = a | e needs e to be a dot right-hand side, and differs for
		// multi-selects on a null left side (pinned by the corpus): excluded
		vrtAssume(e != "{x: a}" && e != "[a, b]" && e != "*" && e != "b.*")
	}
	vrtNote("template:" + id.lhs + "  ==  " + id.rhs)
	doc := vrtDoc("d", 3, uJSON, uJSON)
	if id.cond == "arrayA" {
		m, ok := doc.(map[string]any)
		vrtAssume(ok)
		_, isArr := m["a"].([]any)
		vrtAssume(isArr)
	}
	if id.cond == "nonnull" {
		vrtAssume(doc != nil)
	}
	l, lerr := Search(id.lhs, doc)
	var r any
	var rerr error
	if len(id.rhs) > 7 && id.rhs[:7] == "concat:" {
		// [e1, e2] equals the concatenation of the single selections [e1] and [e2]
		r1, e1 := Search("["+e+"]", doc)
		r2, e2 := Search("[a]", doc)
		rerr = e1
		if rerr == nil {
			rerr = e2
		}
		if rerr == nil {
			a1, ok1 := r1.([]any)
			a2, ok2 := r2.([]any)
			vrtAssert(ok1 && ok2, "single selections are arrays")
			r = append(append([]any{}, a1...), a2...)
		}
	} else {
		r, rerr = Search(id.rhs, doc)
	}
	vrtAssert((lerr == nil) == (rerr == nil), "one spelling fails, the other does not")
	if lerr != nil || rerr != nil {
		if lerr != nil && rerr != nil {
			vrtAssert(classOf(lerr) == classOf(rerr) || classOf(lerr) == 0 || classOf(rerr) == 0, "spellings fail with different categories")
		}
		return
	}
	unordered := c01Unordered(id.lhs)
	if unordered {
		vrtAssert(refEqualMS(l, r), "equivalent spellings give different results (up to member order)")
	} else {
		vrtAssert(refEqual(l, r), "equivalent spellings give different results")
	}
}

// quoteIdents rewrites every unquoted identifier that names a member (not a
// function, keyword or variable) as a quoted identifier.
func quoteIdents(expr string) string {
	out := ""
	i := 0
	for i < len(expr) {
		c := expr[i]
		switch {
		case c == '`' || c == '\'' || c == '"':
			j := i + 1
			for j < len(expr) && expr[j] != c {
				if expr[j] == '\\' {
					j++
				}
				j++
			}
			if j >= len(expr) {
				j = len(expr) - 1
			}
			out += expr[i : j+1]
			i = j + 1
		case c == '$':
			j := i + 1
			for j < len(expr) && (expr[j] == '_' || expr[j] >= 'a' && expr[j] <= 'z' || expr[j] >= 'A' && expr[j] <= 'Z' || expr[j] >= '0' && expr[j] <= '9') {
				j++
			}
			out += expr[i:j]
			i = j
		case c == '_' || c >= 'a' && c <= 'z' || c >= 'A' && c <= 'Z':
			j := i
			for j < len(expr) && (expr[j] == '_' || expr[j] >= 'a' && expr[j] <= 'z' || expr[j] >= 'A' && expr[j] <= 'Z' || expr[j] >= '0' && expr[j] <= '9') {
				j++
			}
			w := expr[i:j]
			if (j < len(expr) && expr[j] == '(') || w == "let" || w == "in" {
				out += w
			} else {
				out += "\"" + w + "\""
			}
			i = j
		default:
			out += string(c)
			i++
		}
	}
	return out
}

// H_C17_quoted: a quoted identifier means what the unquoted one means in
// every position (after a parenthesis, a projection, a pipe, inside
// multi-selects, filters and expression references).
func H_C17_quoted() {
	c01Spec()
	all := append(append([]string{}, c01Bool...), "(a[:1]).b", "(a[*].b).a.b", "(a[].b).a", "(a[?a].b).a", "a[*].b.a", "a | b", "[a, b].a", "{x: a}.x.b", "sort_by(a, &b)[*].a", "map(&a, b)", "(a).b", "((a[*].b)).a", "let $x = a in $x.b", "a[?b == a].b", "*.a", "(*.a).b", "(a.*).b", "(a[*][0]).b")
	k := vrtChoose("expr", len(all))
	expr := all[k]
	q := quoteIdents(expr)
	vrtNote("template:" + expr)
	doc := vrtDoc("d", c01Depth(expr), uJSON, uJSON)
	r1, err1 := Search(expr, doc)
	r2, err2 := Search(q, doc)
	vrtAssert((err1 == nil) == (err2 == nil), "quoting the identifiers changes whether the expression fails")
	if err1 == nil && err2 == nil {
		if c01Unordered(expr) {
			vrtAssert(refEqualMS(r1, r2), "quoting the identifiers changes the result")
		} else {
			vrtAssert(refEqual(r1, r2), "quoting the identifiers changes the result")
		}
	}
}
