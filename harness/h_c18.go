package jmespath

import (
	"encoding/json"

	"github.com/woodsbury/decimal128"
)

// C18: results are plain JSON values that can be queried and serialised again.

// plainJSON reports whether v consists only of nil, bool, string, numbers,
// []any and map[string]any.
func plainJSON(v any, depth int) bool {
	if depth > 6 {
		return true
	}
	switch x := v.(type) {
	case nil, bool, string, json.Number, int64:
		return true
	case float64:
		return x == x && x-x == 0 // finite: NaN and infinities cannot be serialised
	case float32:
		return x == x && x-x == 0
	case decimal128.Decimal:
		return !x.IsNaN() && !x.IsInf(0)
	case []any:
		if x == nil {
			return false // a nil slice is an array to the language but serialises as null
		}
		for _, e := range x {
			if !plainJSON(e, depth+1) {
				return false
			}
		}
		return true
	case map[string]any:
		if x == nil {
			return false // likewise a nil map
		}
		for _, e := range x {
			if !plainJSON(e, depth+1) {
				return false
			}
		}
		return true
	}
	return false
}

var c18E1 = []string{
	"a", "a[*].b", "a[0]", "[a, b]", "{x: a, y: b}", "a[?b]", "a[]", "a.*", "a[1:]", "length(a)", "keys(a)", "values(a)", "sort(a)", "reverse(a)",
	"to_array(a)", "a + b", "-a", "abs(a)", "sum(a)", "avg(a)", "max(a)", "items(a)", "merge(a, b)", "zip(a, b)", "split(a, b)", "type(a)", "to_number(a)",
	"missing", "a.missing", "a[5]", "`null`", "a / b", "a * b", "`1e4000` / a", "`1e4000` / `1e-4000`", "[`-1e4000` / `1e-4000`]", "{x: `1e6000` * `1e6000`}", "`9e6144` * a", "a / `1e-6000`", "sum([a, `9e6144`, `9e6144`])",
	"abs(`1e7000`)", "max([`1e7000`, a])", "-`1e7000`", "ceil(`-1e7000`)", "min([a, `-1e7000`])", "[floor(`1e7000`)]", "{x: abs(`-1e7000`)}", "max_by([`1e7000`], &@)",
	// bare selectors and slices over arrays / objects whose members may all be null: the result is an empty array, not a nil one
	"a[*]", "[*]", "a[?@]", "a[:1]", "a[::-1]", "a[][]", "*", "a[*][*]", "a[*] | [*]", "[a[*], b[*]]", "{x: a[*]}", "a[*] || b", "a[?b][*]", "a[*][0]", "a.*.*", "[*][*]",
	"find_first(a, b)", "ceil(a)", "not_null(a, b)", "map(&b, a)", "group_by(a, &b)", "from_items(a)", "a == b", "a < b", "!a", "a && b", "join(b, a)", "pad_left(a, `3`)",
}

var c18E2 = []string{"x || 'd'", "!x", "x == `null`", "`7`", "x || a || `0`", "[x || `1`]", "not_null(x, 'd')", "a.type(@)", "(a | [@])", "a.not_null(@, 'd')", "[0].to_string(@)", "a[0].to_array(@)", "a.length(@)", "(a | {v: @})", "a.b.type(@)", "@", "[0]", "a", "*", "[*]", "length(@)", "type(@)", "[?@]", "x", "[]", "to_array(@)", "keys(@)", "@ == `1`", "[@, @]", "sum(@)", "sort(@)", "x.a"}

// H_C18_types: every result consists of plain JSON values only.
func H_C18_types() {
	vrtSpec(tq(2, 3), 2, 1, "a,b", smASCII, nfInt|nfFrac, 0)
	vrtNumRange(-2, 2)
	vrtNested(tq(1, 2))
	k := vrtChoose("e1", len(c18E1))
	expr := c18E1[k]
	vrtNote("template:" + expr)
	doc := vrtDoc("d", 2, uJSON, uJSON)
	got, err := Search(expr, doc)
	if err != nil {
		return
	}
	vrtAssert(plainJSON(got, 0), "result contains a value that is not a plain JSON value")
	vrtReach("ok")
}

// H_C18_compose: Search(e2, Search(e1, d)) == Search("e1 | e2", d).
func H_C18_compose() {
	vrtSpec(tq(2, 3), 2, 1, "a,b", smASCII, nfInt, 0)
	vrtNumRange(0, 2)
	vrtNested(tq(1, 2))
	e1 := c18E1[vrtChoose("e1", len(c18E1))]
	e2 := c18E2[vrtChoose("e2", len(c18E2))]
	vrtNote("template:" + e1 + " | " + e2)
	doc := vrtDoc("d", 2, uJSON, uJSON)
	r1, err1 := Search(e1, doc)
	whole, errW := Search("("+e1+") | "+e2, doc)
	if err1 != nil {
		vrtAssert(errW != nil && classOf(errW) == classOf(err1), "pipe must fail like its left side")
		return
	}
	r2, err2 := Search(e2, r1)
	vrtAssert((err2 == nil) == (errW == nil), "feeding the result back fails differently from the pipe")
	if err2 != nil || errW != nil {
		if err2 != nil && errW != nil {
			vrtAssert(classOf(err2) == classOf(errW), "error category differs between pipe and re-query")
		}
		return
	}
	if c01Unordered(e2) || c01Unordered(e1) || e2 == "keys(@)" || e1 == "keys(a)" || e1 == "values(a)" || e1 == "items(a)" {
		vrtAssert(refEqualMS(r2, whole), "re-querying the result differs from the pipe (up to member order)")
	} else {
		vrtAssert(refEqual(r2, whole), "re-querying the result differs from the pipe")
	}
}

// H_C18_floats: natively built documents with binary floating-point leaves at
// the edges of their range: whatever arithmetic is done on them, a successful
// result is finite (an overflow or an invalid operation is an error, never an
// infinity or NaN handed back as a value).
var c18F64 = []float64{0, 1, -1, 0.5, 3, 1e308, -1e308, 1.7976931348623157e308, 1e-308, 5e-324, 9007199254740992, 1e200, -1e-200}
var c18F32 = []float32{0, 1, -1, 0.5, 3, 3e38, -3e38, 3.4028234e38, 1e-38, 1e-45, 16777216, 1e30, -1e-30}

var c18FloatExprs = []string{
	"a + b", "a - b", "a * b", "a / b", "a // b", "a % b", "-a", "abs(a)", "sum([a, b])", "avg([a, b])", "max([a, b])", "min([a, b])",
	"ceil(a)", "floor(a)", "a * a", "a / b / b", "a * b * b", "[a / b]", "{x: a * b}", "sum([a, a, b, b])", "a + a", "a - b - b", "to_number(to_string(a))",
}

func H_C18_floats() {
	i := vrtChoose("a", len(c18F64))
	j := vrtChoose("b", len(c18F64))
	var doc any
	if vrtBool("f32") {
		doc = map[string]any{"a": c18F32[i], "b": c18F32[j]}
	} else {
		doc = map[string]any{"a": c18F64[i], "b": c18F64[j]}
	}
	expr := c18FloatExprs[vrtChoose("expr", len(c18FloatExprs))]
	vrtNote("template:" + expr)
	got, err := Search(expr, doc)
	if err != nil {
		vrtReach("error")
		return
	}
	vrtAssert(plainJSON(got, 0), "result contains a value that is not a plain JSON value")
	vrtReach("ok")
}
