package jmespath

// Validation of the reference model against the repository's compliance corpus
// (the oracle must agree with every case the library itself is tested on).

import (
	"encoding/json"
	"os"
	"path/filepath"
	"strings"
	"testing"
)

var corpusClass = map[string]int{"syntax": ecSyntax, "invalid-arity": ecArity, "unknown-function": ecUnknownFn, "invalid-type": ecType, "invalid-value": ecValue, "undefined-variable": ecUndefVar, "not-a-number": ecNaN}

func TestVerifRefjpCorpus(t *testing.T) {
	total, agree, unspecified := 0, 0, 0
	for _, dir := range []string{"testdata/compliance", "testdata/extra"} {
		files, _ := filepath.Glob(filepath.Join(dir, "*.json"))
		for _, f := range files {
			data, err := os.ReadFile(f)
			if err != nil {
				t.Fatal(err)
			}
			dec := json.NewDecoder(strings.NewReader(string(data)))
			dec.UseNumber()
			var groups []struct {
				Given any `json:"given"`
				Cases []struct {
					Expression string `json:"expression"`
					Result     any    `json:"result"`
					Error      string `json:"error"`
				} `json:"cases"`
			}
			if err := dec.Decode(&groups); err != nil {
				t.Fatalf("%s: %v", f, err)
			}
			for _, g := range groups {
				for _, c := range g.Cases {
					total++
					got, ec := refSearch(c.Expression, g.Given)
					if ec == ecUnspecified {
						unspecified++
						t.Logf("unspecified: %s %q", filepath.Base(f), c.Expression)
						continue
					}
					if c.Error != "" {
						if ec != corpusClass[c.Error] {
							t.Errorf("%s %q: want error %s, reference gives %s (%v)", filepath.Base(f), c.Expression, c.Error, ecNames[ec], got)
							continue
						}
						agree++
						continue
					}
					if ec != ecNone {
						t.Errorf("%s %q: want %v, reference gives error %s", filepath.Base(f), c.Expression, c.Result, ecNames[ec])
						continue
					}
					if !refEqual(c.Result, got) {
						t.Errorf("%s %q: want %v, reference gives %v", filepath.Base(f), c.Expression, c.Result, got)
						continue
					}
					agree++
				}
			}
		}
	}
	t.Logf("REFJP-CORPUS total=%d agree=%d unspecified=%d", total, agree, unspecified)
}
