package jmespath

import (
	"encoding/json"

	"github.com/woodsbury/decimal128"
)

// C02: every built-in returns the specified result for every argument.
// Differential against refjp's function table (Appendix A of DESIGN.md).

func fnUnordered(fn string) bool {
	switch fn {
	case "items", "keys", "values":
		return true
	}
	return false
}

func fnUsesRef(fn string) bool {
	switch fn {
	case "group_by", "map", "max_by", "min_by", "sort_by":
		return true
	}
	return false
}

// diffExtremal: max_by/min_by may return any element whose key is extremal.
func diffExtremal(expr string, doc map[string]any) {
	got, err := Search(expr, doc)
	want, ec := refSearch(expr, doc)
	if ec == ecUnspecified {
		return
	}
	if ec != ecNone {
		vrtAssert(err != nil && ecOfError(err) == ec, "error category differs from the specification: want "+ecNames[ec])
		vrtAssert(got == nil, "failed call returns nil")
		return
	}
	vrtAssert(err == nil, "unexpected error")
	if err != nil {
		return
	}
	if refEqual(got, want) {
		return
	}
	// accept another element with an equal key
	arr, _ := doc["a"].([]any)
	wk, _ := refSearch("x", want)
	ok := false
	for _, e := range arr {
		if vrtSameObject(e, got) || refEqual(e, got) {
			k, _ := refSearch("x", e)
			if refEqual(k, wk) {
				ok = true
			}
		}
	}
	vrtAssert(ok, "result is not an element with an extremal key")
}

// H_C02_funcs: each function template over JSON documents.
func H_C02_funcs() {
	vrtSpec(tq(2, 3), 1, tq(2, 3), "x", smASCII, nfInt|nfDot|nfFrac, 0)
	vrtNumRange(-3, 3)
	k := vrtChoose("fn", len(fnTemplates))
	t := fnTemplates[k]
	vrtNote("template:" + t.expr)
	depth := 1
	if fnUsesRef(t.fn) || t.fn == "from_items" || t.fn == "zip" || t.fn == "merge" {
		depth = 2
	}
	doc := map[string]any{}
	for i := 0; i < t.nargs; i++ {
		doc[argNames[i]] = vrtDoc(argNames[i], depth, uJSON, uJSON)
	}
	if t.fn == "max_by" || t.fn == "min_by" {
		diffExtremal(t.expr, doc)
		return
	}
	diffSearch(t.expr, doc, fnUnordered(t.fn))
}

var c02Arity = []string{
	"abs", "avg", "ceil", "contains", "ends_with", "find_first", "find_last", "floor", "from_items", "group_by", "items", "join",
	"keys", "length", "lower", "map", "max", "max_by", "merge", "min", "min_by", "not_null", "pad_left", "pad_right", "replace",
	"reverse", "sort", "sort_by", "split", "starts_with", "sum", "to_array", "to_number", "to_string", "trim", "trim_left",
	"trim_right", "type", "upper", "values", "zip", "nosuchfn", "Abs",
}

// H_C02_arity: arity, unknown-function and expression-reference-position
// faults are static: same class from Compile and from Search on any document.
func H_C02_arity() {
	f := c02Arity[vrtChoose("fn", len(c02Arity))]
	n := vrtChoose("nargs", 6)
	refPos := vrtChoose("refpos", 4) - 1 // -1: no expression reference
	expr := f + "("
	for i := 0; i < n; i++ {
		if i > 0 {
			expr += ", "
		}
		if i == refPos {
			expr += "&a"
		} else {
			expr += "a"
		}
	}
	expr += ")"
	vrtNote("template:" + expr)
	_, cerr := Compile(expr)
	doc := vrtDoc("d", 1, uJSON, uJSON)
	_, serr := Search(expr, doc)
	// faults present in the call (multi-fault expressions may report any of them)
	call := &rnode{kind: rnCall, str: f}
	for i := 0; i < n; i++ {
		if i == refPos {
			call.kids = append(call.kids, &rnode{kind: rnExpref})
		} else {
			call.kids = append(call.kids, &rnode{kind: rnField, str: "a"})
		}
	}
	arity, refs := refCallFaults(call)
	if arity == ecNone && refs == ecNone {
		vrtAssert(cerr == nil, "well-formed call must compile")
	} else {
		vrtAssert(cerr != nil, "statically invalid call must be rejected by Compile")
		if cerr != nil {
			c := ecOfError(cerr)
			// a misplaced expression reference is invalid-type; the implementation
			// reports some of them as syntax errors, which is accepted here
			ok := (arity != ecNone && c == arity) || (refs != ecNone && (c == ecType || c == ecSyntax))
			vrtAssert(ok, "static fault class is none of the faults present")
		}
	}
	if cerr != nil {
		vrtAssert(serr != nil && ecOfError(serr) == ecOfError(cerr), "Search reports the static fault like Compile, for every document")
	}
}

// H_C02_ints: integer-valued parameters in every spelling (1, 1.0, 1e0) and
// non-integral / negative values.
func H_C02_ints() {
	vrtSpec(tq(2, 3), 1, tq(3, 4), "x", smASCII, nfInt|nfDot|nfExp|nfFrac, 0)
	vrtNumRange(-2, 5)
	exprs := []string{"pad_left(a, c)", "pad_right(a, c, b)", "split(a, b, c)", "replace(a, b, 'zz', c)", "find_first(a, b, c)", "find_first(a, b, c, d)", "find_last(a, b, c, d)", "find_last(a, b, c)"}
	k := vrtChoose("expr", len(exprs))
	vrtNote("template:" + exprs[k])
	doc := map[string]any{
		"a": vrtStr("a", 3, smASCII),
		"b": vrtStr("b", 1, smASCII),
		"c": vrtJNum("c", nfInt|nfDot|nfExp|nfFrac),
		"d": vrtJNum("d", nfInt|nfDot|nfFrac),
	}
	diffSearch(exprs[k], doc, false)
}

// H_C02_tonumber: to_number of a string is the number exactly when the text is
// a JSON number, and null for every other text. Texts: every string of up to
// four characters over the characters number parsers treat specially, plus
// signed words that decimal libraries accept (Inf, NaN ...). The characters are
// chosen by engine forks, each text then runs through the real to_number
// (concretely, with the real decimal128 parser) and through the reference.
var c02NumChars = []byte{'0', '1', '7', '+', '-', '.', 'e', 'E', '_', ' '}
var c02NumWords = []string{"Inf", "inf", "Infinity", "NaN", "nan", "null", "true", "0x10", "1e400000", "1e-400000", "\"1\"", "1,0", "\u0661", "1\n", "\t1", "0.10", "00", "-0.0e-0", "1E+02", "9007199254740993", "0.1e1_0"}

func H_C02_tonumber() {
	var s string
	if vrtChoose("kind", 2) == 0 {
		n := vrtChoose("len", tq(4, 5)+1)
		b := make([]byte, n)
		for i := 0; i < n; i++ {
			b[i] = c02NumChars[vrtChoose("ch", len(c02NumChars))]
		}
		s = string(b)
	} else {
		s = []string{"", "+", "-"}[vrtChoose("sign", 3)] + c02NumWords[vrtChoose("word", len(c02NumWords))]
	}
	vrtNote("template:to_number(a) on a number-like text")
	diffSearch("to_number(a)", map[string]any{"a": s}, false)
	diffSearch("to_number(a) == `1`", map[string]any{"a": s}, false)
}

// H_C02_variadic: merge, not_null and zip with 1..9 arguments (argument lists
// longer than any small fixed-size buffer), the arguments cycling through three
// lazily typed members.
func H_C02_variadic() {
	vrtSpec(2, 2, 1, "x,y", smASCII, nfInt, 0)
	vrtNumRange(0, 2)
	fn := []string{"merge", "not_null", "zip"}[vrtChoose("fn", 3)]
	n := 1 + vrtChoose("nargs", 9)
	names := []string{"a", "b", "c"}
	expr := fn + "("
	for i := 0; i < n; i++ {
		if i > 0 {
			expr += ", "
		}
		expr += names[(i*2+i/3)%3]
	}
	expr += ")"
	vrtNote("template:" + fn + " with 1..9 arguments")
	u := uNil | uObj
	switch fn {
	case "zip":
		u = uArr | uNil
	case "not_null":
		u = uNil | uJNum | uStr
	}
	doc := map[string]any{"a": vrtDoc("a", 1, u, uJNum|uNil), "b": vrtDoc("b", 1, u, uJNum|uStr), "c": vrtDoc("c", 1, u, uJNum|uNil)}
	diffSearch(expr, doc, false)
}

// H_C02_tinyfrac: counts, widths and offsets that miss an integer by less
// than binary floating point resolves (and numbers that only look integral in
// 16 digits) are not integers: invalid-value, as for 1.5.
var c02Tiny = []string{"3.00000000000000000001", "2.0000000000000000000000000000001", "1e-30", "0.99999999999999999999", "4.000000000000000000005e0", "1.0000000000000001", "2.99999999999999999999999", "30000000000000000000001e-22", "1.5", "3.0", "3e0", "30e-1", "0.3e1", "-0.00000000000000000001"}

func H_C02_tinyfrac() {
	exprs := []string{"pad_left(a, c)", "pad_right(a, c, b)", "split(a, b, c)", "replace(a, b, 'zz', c)", "find_first(a, b, c)", "find_first(a, b, `0`, c)", "find_last(a, b, c)", "find_last(a, b, `0`, c)"}
	k := vrtChoose("expr", len(exprs))
	vrtNote("template:" + exprs[k])
	c := json.Number(c02Tiny[vrtChoose("c", len(c02Tiny))])
	var cv any = c
	if vrtChoose("carrier", 2) == 1 {
		d, err := decimal128.Parse(string(c))
		vrtAssume(err == nil)
		cv = d
	}
	doc := map[string]any{"a": "abcabc", "b": "c", "c": cv}
	diffSearch(exprs[k], doc, false)
}
