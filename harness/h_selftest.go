package jmespath

// Engine self-test harnesses with known outcomes (run by `vcheck selftest` and
// before every check): a reachability twin that must be violated, a branch
// count, lazy document typing, string and map basics.

func H_ST_twin() {
	x := vrtInt("x")
	if x > 5 && x < 7 {
		vrtAssert(false, "twin reached")
	}
}

func H_ST_branches() {
	x := vrtInt("x")
	n := 0
	if x < 0 {
		n++
	}
	if x > 10 {
		n++
	}
	vrtAssert(n <= 1, "at most one of the two")
	vrtReach("end")
}

func H_ST_doc() {
	d := vrtDoc("d", 1, uJSON, uScalar)
	switch d.(type) {
	case nil:
		vrtReach("nil")
	case bool:
		vrtReach("bool")
	case string:
		vrtReach("string")
	case []any:
		vrtReach("array")
	case map[string]any:
		vrtReach("object")
	default:
		vrtReach("number")
	}
}

func H_ST_wrap() {
	x := vrtInt("x")
	y := x + 1
	if x == 9223372036854775807 {
		vrtAssert(y < 0, "int64 addition wraps")
	} else {
		vrtAssert(y == x+1 && y > x, "no wrap below the maximum")
	}
	z := vrtIntRange("z", -3, 3)
	vrtAssert(z*z <= 9, "small range arithmetic")
	vrtAssert((x/7)*7+x%7 == x, "division identity (truncated division)")
	if x < 0 {
		vrtAssert(x%7 <= 0 && x/7 <= 0, "Go's division truncates towards zero")
	}
}

func H_ST_strings() {
	s := vrtStrN("s", 2, smASCII)
	vrtAssert(len(s) == 2, "length")
	if s[0] == 'a' && s[1] == 'b' {
		vrtAssert(s == "ab", "bytes determine the string")
	}
	m := map[string]any{s: 1, "ab": 2}
	if s == "ab" {
		vrtAssert(len(m) == 1, "equal keys collapse")
	} else {
		vrtAssert(len(m) == 2, "distinct keys stay apart")
	}
}
