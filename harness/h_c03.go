package jmespath

import (
	"github.com/woodsbury/jmespath/internal/lexer"
	"github.com/woodsbury/jmespath/internal/parser"
)

// C03: no expression and no data value can make the library panic.
// Panics are observed by the engine's panic monitor (any feasible panic in the
// code under test is an event); natively a panic fails the replay.

// H_C03_lexer: one lexer step from an arbitrary state over arbitrary bytes.
// Inductive: one Next from any position covers expressions of any length for
// tokens that fit the window. Also C09's progress obligation.
func H_C03_lexer() {
	maxLen := 4
	if vrtTier() == 1 {
		maxLen = 6
	}
	n := vrtChoose("len", maxLen+1)
	s := vrtStrN("e", n, smBytes)
	pos := vrtChoose("pos", n+1)
	tok, np, err := lexer.VerifNext(s, pos)
	if err != nil {
		_ = err.Error()
		return
	}
	vrtAssert(np <= len(s) && np >= pos, "lexer position stays within the expression")
	if tok.Type == lexer.EndToken {
		vrtAssert(np == len(s), "EndToken only at the end")
		return
	}
	vrtAssert(np > pos, "lexer makes progress on every token")
	v := tok.Value
	vrtAssert(len(v) > 0, "token text is non-empty")
	switch tok.Type {
	case lexer.StringLiteralToken:
		vrtAssert(len(v) >= 2 && v[0] == '\'' && v[len(v)-1] == '\'', "raw string token is delimited")
	case lexer.QuotedIdentifierToken:
		vrtAssert(len(v) >= 2 && v[0] == '"' && v[len(v)-1] == '"', "quoted identifier token is delimited")
	case lexer.JSONLiteralToken:
		vrtAssert(len(v) >= 2 && v[0] == '`' && v[len(v)-1] == '`', "JSON literal token is delimited")
	case lexer.ObjectWildcardToken:
		vrtAssert(len(v) == 2, ".* token has two bytes")
	}
	vrtReach("token")
}

// lexedBody reports whether body could be the inside of a delimited literal
// token as the lexer scans it: valid UTF-8 without U+FFFD-decoding bytes, every
// backslash followed by another character, no unescaped delimiter.
func lexedBody(body string, delim byte) bool {
	i := 0
	for i < len(body) {
		c := body[i]
		if c >= 0x80 {
			return false // harness restricts decoder inputs to ASCII bodies
		}
		if c == delim {
			return false
		}
		if c == '\\' {
			if i+1 >= len(body) {
				return false
			}
			i += 2
			continue
		}
		i++
	}
	return true
}

// H_C03_decoders: the literal decoders never panic on any token text the
// lexer can produce (ASCII bodies of bounded length).
func H_C03_decoders() {
	maxLen := 5
	if vrtTier() == 1 {
		maxLen = 7
	}
	n := vrtChoose("len", maxLen+1)
	body := vrtStrN("body", n, smASCII)
	switch vrtChoose("kind", 2) {
	case 0:
		vrtAssume(lexedBody(body, '\''))
		_, err := parser.VerifParseStringLiteral("'" + body + "'")
		vrtAssert(err == nil, "raw string literals always decode")
	case 1:
		vrtAssume(lexedBody(body, '"'))
		_, err := parser.VerifParseQuotedIdentifier("\"" + body + "\"")
		if err != nil {
			_ = err.Error()
		}
	}
	vrtReach("decoded")
}

// c03Universe is the set of Go types explored at argument positions: the
// quick tier uses one representative per numeric family, the thorough tier
// every kind.
func c03Universe() (root, child int) {
	if vrtTier() == 1 {
		return uAll, uJSON | uJNum | uInt | uUint64 | uF64 | uDec | uForeignPtr
	}
	nums := uJNum | uInt | uInt64 | uUint64 | uUint8 | uF32 | uF64 | uDec
	return uJSON | nums | uForeignPtr | uStrSlice, uNil | uStr | uJNum | uArr | uF64 | uDec
}

// H_C03_funcs: every built-in on arbitrary Go values at every position.
func H_C03_funcs() {
	vrtSpec(2, 1, 2, "x", smBytes, nfInt|nfFrac|nfBad, sfSpecials)
	vrtNumRange(-4, 4)
	k := vrtChoose("fn", len(fnTemplates))
	t := fnTemplates[k]
	vrtNote("template:" + t.expr)
	root, child := c03Universe()
	depth := 1
	if t.fn == "from_items" || t.fn == "zip" || t.fn == "sort_by" || t.fn == "group_by" {
		depth = 2
		root = uNil | uStr | uArr | uObj
	}
	doc := map[string]any{}
	for i := 0; i < t.nargs; i++ {
		doc[argNames[i]] = vrtDoc(argNames[i], depth, root, child)
	}
	e, cerr := Compile(t.expr)
	vrtAssert(cerr == nil, "template compiles")
	if cerr != nil {
		return
	}
	got, err := e.Search(doc)
	if err != nil {
		c := touchError(err)
		vrtAssert(c >= 0, "every error matches exactly one category")
		vrtAssert(got == nil, "failed call returns nil")
	}
	vrtReach("returned")
}

// H_C03_bigints: integer parameters at the extremes of int64, in every carrier.
func H_C03_bigints() {
	vrtSpec(2, 1, 3, "x", smASCII, nfInt, sfSpecials)
	vrtNumRange(-9223372036854775807-1, 9223372036854775807)
	exprs := []string{
		"find_first(a, b, c, d)", "find_last(a, b, c, d)", "find_first(a, b, c)", "find_last(a, b, c)",
		"split(a, b, c)", "replace(a, b, 'z', c)", "pad_left(a, c)", "pad_right(a, c, 'x')",
	}
	k := vrtChoose("expr", len(exprs))
	vrtNote("template:" + exprs[k])
	doc := map[string]any{
		"a": vrtStr("a", 3, smASCII),
		"b": vrtStr("b", 1, smASCII),
		"c": vrtDoc("c", 0, uNums, uNums),
		"d": vrtDoc("d", 0, uJNum|uInt64|uUint64|uF64|uDec, uNums),
	}
	vrtMaxAlloc(16)
	got, err := Search(exprs[k], doc)
	if err != nil {
		c := touchError(err)
		vrtAssert(c >= 0, "every error matches exactly one category")
		vrtAssert(got == nil, "failed call returns nil")
	}
	vrtReach("returned")
}

var c03Core = []string{
	"a.b", "a[0]", "a[-1]", "a[*]", "a.*", "a[]", "a[?b]", "a[?@ == b]", "a[1:]", "a[::-1]", "[a, b]", "{x: a, y: b}",
	"a | b", "a && b", "a || b", "!a", "a == b", "a != b", "a < b", "a <= b", "a > b", "a >= b",
	"a + b", "a - b", "a * b", "a / b", "a // b", "a % b", "-a", "+a", "let $v = a in [$v, b]", "$", "@", "*[0]", "[*].x", "a[*].x.*",
}

// H_C03_core: core-language node kinds over arbitrary Go values.
func H_C03_core() {
	vrtSpec(2, 1, 1, "x", smBytes, nfInt|nfFrac|nfBad, sfSpecials)
	vrtNumRange(-4, 4)
	k := vrtChoose("expr", len(c03Core))
	vrtNote("template:" + c03Core[k])
	root, child := c03Universe()
	doc := map[string]any{
		"a": vrtDoc("a", 1, root, child),
		"b": vrtDoc("b", 1, root, child),
	}
	got, err := Search(c03Core[k], doc)
	if err != nil {
		c := touchError(err)
		vrtAssert(c >= 0, "every error matches exactly one category")
		vrtAssert(got == nil, "failed call returns nil")
	}
	vrtReach("returned")
}

// escSegment builds one piece of a quoted-identifier body: an ordinary ASCII
// character, a two-character escape, or \u followed by 0..4 symbolic characters
// (so truncated and malformed \uXXXX forms, surrogate ranges and pairs occur).
func escSegment(i int) string {
	switch vrtChoose("seg", 4) {
	case 0:
		return vrtStrN("c", 1, smASCII)
	case 1:
		return "\\" + vrtStrN("e", 1, smASCII)
	case 2:
		if vrtTier() == 1 {
			return "\\u" + vrtStrN("h", 4, smASCII)
		}
		// quick: the first two hex digits from the interesting ranges (high / low
		// surrogates, control, Latin-1), the last two symbolic
		pre := []string{"d8", "dc", "00", "e9", "DB", ""}
		k := vrtChoose("hexprefix", len(pre))
		if pre[k] == "" {
			// any character in the first position, then a fixed tail
			return "\\u" + vrtStrN("h", 1, smASCII) + "041"
		}
		return "\\u" + pre[k] + vrtStrN("h", 2, smASCII)
	default:
		return "\\u" + vrtStr("t", 3, smASCII)
	}
}

// H_C03_escapes: quoted identifiers made of up to three escape segments never
// panic the decoder (also used for C04: accept exactly the JSON string bodies).
func H_C03_escapes() {
	maxSeg := 2
	if vrtTier() == 1 {
		maxSeg = 3
	}
	n := 1 + vrtChoose("segments", maxSeg)
	body := ""
	for i := 0; i < n; i++ {
		body += escSegment(i)
	}
	vrtAssume(lexedBody(body, '"'))
	v, err := parser.VerifParseQuotedIdentifier("\"" + body + "\"")
	want, ok := refDecodeQuoted(body)
	if refSurrogateOpen(body) {
		return
	}
	if ok {
		vrtAssert(err == nil, "a valid JSON string body is rejected as quoted identifier")
		if err == nil {
			vrtAssert(v == want, "quoted identifier decodes to a different string")
		}
	} else {
		vrtAssert(err != nil, "a malformed quoted identifier is accepted")
	}
	vrtReach("decoded")
}

// H_C03_slices: slices with all-int64 bounds on arrays and strings never panic.
func H_C03_slices() {
	var doc any
	n := vrtChoose("n", 4)
	switch vrtChoose("kind", 3) {
	case 0:
		a := make([]any, n)
		for i := range a {
			a[i] = int64(i)
		}
		doc = a
	case 1:
		doc = vrtStrN("s", n, smUTF8|(5<<2))
	default:
		doc = vrtDoc("d", 1, uAll, uScalar)
	}
	k := vrtChoose("pattern", len(c12Patterns))
	expr, _, _, _, _, _ := c12Template(k)
	got, err := Search(expr, doc)
	if err != nil {
		vrtAssert(touchError(err) >= 0 && got == nil, "error contract")
	}
	vrtReach("returned")
}
