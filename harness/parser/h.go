package parser

// In-package entry points for the literal decoders.

func VerifParseStringLiteral(s string) (string, error) {
	n, err := parseStringLiteral(s)
	if err != nil {
		return "", err
	}
	return n.(*StringNode).Value, nil
}

func VerifParseQuotedIdentifier(s string) (string, error) {
	return parseQuotedIdentifier(s)
}

func VerifParseJSONLiteral(s string) (Node, error) {
	return parseJSONLiteral(s)
}
