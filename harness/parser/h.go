package parser

// In-package entry points for the literal decoders.

func VerifParseStringLiteral(s string) (string, error) {
	n, err := parseStringLiteral(s)
	if err != nil {
		return "", err
	}
	return n.(*StringNode).Value, nil
}

func VerifParseQuotedIdentifier(s string) (string, error) {
	return parseQuotedIdentifier(s)
}

func VerifParseJSONLiteral(s string) (Node, error) {
	return parseJSONLiteral(s)
}

// VerifErrors returns one value of every error type of this package.
func VerifErrors(s string) []error {
	return []error{
		&InvalidFunctionArgumentError{s, "expression"},
		&InvalidFunctionCallError{s},
		&InvalidSliceStepError{},
		&UnknownFunctionError{s},
		&invalidIndexError{s},
		&invalidJSONLiteralError{s},
		&invalidQuotedStringError{s},
		&unexpectedTokenError{s},
	}
}
