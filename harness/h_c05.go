package jmespath

import (
	"encoding/json"
	"math"

	"github.com/woodsbury/decimal128"
)

// C05: arithmetic on JSON numbers is exact decimal arithmetic, never binary
// float. Operands are k/10^j with symbolic k; the expected value is computed
// by the reference directly on decimals (the engine models decimal128 by its
// contract and treats every conversion through binary floating point as
// inexact, so a float detour cannot be proven equal).

var c05Ops = []string{"+", "-", "*", "/", "//", "%"}

func c05Operand(name string) any {
	switch vrtChoose(name+"_carrier", 3) {
	case 0:
		return vrtJNum(name, nfInt|nfFrac)
	case 1:
		// a decimal value supplied by the caller
		n := vrtJNum(name, nfInt|nfFrac)
		d, err := decimal128.Parse(string(n))
		vrtAssume(err == nil)
		return d
	default:
		return vrtJNum(name, nfInt|nfDot|nfExp)
	}
}

// H_C05_binary: the six binary operators.
func H_C05_binary() {
	vrtNumRange(-100000000000000000, 100000000000000000)
	op := c05Ops[vrtChoose("op", len(c05Ops))]
	expr := "a " + op + " b"
	vrtNote("template:" + expr)
	doc := map[string]any{"a": c05Operand("a"), "b": c05Operand("b")}
	got, err := Search(expr, doc)
	want, ec := refSearch(expr, doc)
	if ec == ecUnspecified {
		return
	}
	if ec == ecNaN {
		vrtAssert(err != nil && ecOfError(err) == ecNaN, "division by zero / overflow must be a not-a-number error")
		vrtAssert(got == nil, "failed call returns nil")
		return
	}
	vrtAssert(err == nil, "unexpected error")
	if err != nil {
		return
	}
	d, ok := got.(decimal128.Decimal)
	_, isJN := got.(json.Number)
	vrtAssert(ok || isJN, "arithmetic result is a decimal number (not a binary float)")
	vrtAssert(refEqual(got, want), "result is not the exact decimal result")
	if ok {
		vrtAssert(!d.IsNaN() && !d.IsInf(0), "infinities and NaN are never returned as values")
	}
	vrtReach("value")
}

var c05Funcs = []string{"sum([a, b])", "avg([a, b])", "abs(a)", "ceil(a)", "floor(a)", "to_number(a)", "-a", "+a", "a < b", "a <= b", "a == b", "max([a, b])", "sum([a, b, a])", "to_number(s)", "s2 + a"}

// H_C05_funcs: numeric functions, unary operators and comparisons.
func H_C05_funcs() {
	vrtNumRange(-100000000000000000, 100000000000000000)
	expr := c05Funcs[vrtChoose("fn", len(c05Funcs))]
	vrtNote("template:" + expr)
	a, b := c05Operand("a"), c05Operand("b")
	doc := map[string]any{"a": a, "b": b}
	if expr == "to_number(s)" || expr == "s2 + a" {
		// the same number as a string: to_number must parse it exactly
		n := vrtJNum("s", nfInt|nfFrac)
		doc["s"] = string(n)
		doc["s2"] = n
		if expr == "to_number(s)" {
			got, err := Search(expr, doc)
			vrtAssert(err == nil, "to_number of a JSON number text")
			vrtAssert(refEqual(got, n), "to_number(string) is not the exact decimal value of the text")
			return
		}
	}
	diffSearch(expr, doc, false)
}

// H_C05_extremes: x/0, 0/0 and values beyond the decimal128 range.
func H_C05_extremes() {
	exprs := []string{"a / `0`", "`0` / `0`", "a // `0`", "a % `0`", "`1e6144` * `10`", "`-1e6144` * `10`", "`1e6144` + `1e6144`", "`1e-6176` / `10` == `0`", "avg([`1e6144`, `1e6144`])", "sum([`9e6144`, `9e6144`])"}
	k := vrtChoose("expr", len(exprs))
	vrtNote("template:" + exprs[k])
	doc := map[string]any{"a": vrtJNum("a", nfInt|nfFrac)}
	got, err := Search(exprs[k], doc)
	if err != nil {
		vrtAssert(ecOfError(err) == ecNaN, "overflow and division by zero are not-a-number errors")
		vrtAssert(got == nil, "failed call returns nil")
		return
	}
	if d, ok := got.(decimal128.Decimal); ok {
		vrtAssert(!d.IsNaN() && !d.IsInf(0), "infinities and NaN are never returned as values")
	}
}

// c05Near: operands at the edges of binary64 and of the 34-digit precision.
var c05Near = []string{
	"9007199254740993", "9007199254740992", "0.1", "0.2", "0.3", "1.000000000000000000000000000000001", "1", "4503599627370496.5", "9007199254740990.3", "9007199254740990",
	"1e-400", "0", "2e34", "3", "3e-34", "2", "6999999999999999999999999999999999", "0.7", "-2e34", "-3", "1e6144", "10", "0.1000000000000000055511151231257827", "123456789.123456789",
	"0.6666666666666666666666666666666667", "9999999999999999999999999999999999", "-0.6666666666666666666666666666666667", "5e-7", "9999999999999999999999999999999999e6111", "25E-1", "-15E-1", "7E0", "1E+1", "0.5E1",
}

var c05NearExprs = []string{"to_number(s) == a", "to_number(s) + b", "a + b", "a - b", "a * b", "a / b", "a // b", "a % b", "a == b", "a < b", "a > b", "ceil(a)", "floor(a)", "abs(a)", "sum([a, b])", "avg([a, b])", "-a", "to_number(to_string(a)) == a", "a > `0`", "a == `1`"}

// H_C05_near: concrete operands where binary floating point or premature
// rounding changes the result; the reference computes with the real
// decimal128 library (concrete decimals are not modelled but executed).
func H_C05_near() {
	expr := c05NearExprs[vrtChoose("expr", len(c05NearExprs))]
	vrtNote("template:" + expr)
	a := json.Number(c05Near[vrtChoose("a", len(c05Near))])
	b := json.Number(c05Near[vrtChoose("b", len(c05Near))])
	var doc map[string]any
	if vrtChoose("carrier", 2) == 0 {
		doc = map[string]any{"a": a, "b": b, "s": string(a)}
	} else {
		da, e1 := decimal128.Parse(string(a))
		db, e2 := decimal128.Parse(string(b))
		vrtAssume(e1 == nil && e2 == nil)
		doc = map[string]any{"a": da, "b": db, "s": string(a)}
	}
	diffSearch(expr, doc, false)
}

// H_C05_int64: integers over the whole 64-bit range (as JSON text, as Go
// int64 and as decimals) through sums, differences and comparisons: results
// have at most 21 digits, so they are exact; an implementation that adds in
// machine integers wraps somewhere in this range.
var c05IntExprs = []string{"sum([a, b])", "sum([a, b, a])", "sum([a, a, b, b])", "avg([a, b])", "a + b", "a - b", "a + b + a", "a - b - b", "-a", "abs(a)", "a < b", "a == b", "max([a, b])", "min([a, b, a])", "ceil(a)", "floor(a)", "sum([a, b]) == a + b", "a + `1`", "a - `1`", "sum([a, `-1`])", "sum([`1`, a, b])"}

func c05IntOperand(name string) any {
	n := vrtJNum(name, nfInt)
	k, err := n.Int64()
	vrtAssume(err == nil)
	switch vrtChoose(name+"_carrier", 3) {
	case 0:
		return n
	case 1:
		return k
	default:
		return decimal128.FromInt64(k)
	}
}

func H_C05_int64() {
	vrtNumRange(math.MinInt64, math.MaxInt64)
	expr := c05IntExprs[vrtChoose("expr", len(c05IntExprs))]
	vrtNote("template:" + expr)
	doc := map[string]any{"a": c05IntOperand("a"), "b": c05IntOperand("b")}
	got, err := Search(expr, doc)
	want, ec := refSearch(expr, doc)
	if ec == ecUnspecified {
		return
	}
	vrtAssert(ec == ecNone && err == nil, "integer arithmetic within 21 digits cannot fail")
	if err != nil || ec != ecNone {
		return
	}
	vrtAssert(refEqual(got, want), "result is not the exact integer result")
}
