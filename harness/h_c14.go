package jmespath

import (
	"encoding/json"

	"github.com/woodsbury/decimal128"
)

// C14: results do not depend on which Go type carries a number.
// One mathematical value v, two carriers; results must be errors of the same
// class or values equal as numbers.

const c14Carriers = 17

// c14Carry returns v in carrier k; ok=false if v does not fit that carrier.
func c14Carry(v int, k int) (any, bool) {
	switch k {
	case 0:
		return vrtJNumFrom(v, nfInt), true
	case 1:
		return vrtJNumFrom(v, nfDot), true
	case 2:
		return vrtJNumFrom(v, nfExp), true
	case 3:
		return v, true
	case 4:
		return int8(v), v >= -128 && v <= 127
	case 5:
		return int16(v), v >= -32768 && v <= 32767
	case 6:
		return int32(v), true
	case 7:
		return int64(v), true
	case 8:
		return uint(v), v >= 0
	case 9:
		return uint8(v), v >= 0 && v <= 255
	case 10:
		return uint16(v), v >= 0 && v <= 65535
	case 11:
		return uint32(v), v >= 0
	case 12:
		return uint64(v), v >= 0
	case 13:
		return float32(v), true
	case 14:
		return float64(v), true
	case 15:
		return decimal128.FromInt64(int64(v)), true
	default:
		// the same value with one fractional digit (v.0): a different encoding
		// (zero is left to carrier 15: the library normalises its exponent)
		return decimal128.New(int64(v)*10, -1), v != 0
	}
}

var c14Exprs = []string{
	"a + b", "a - b", "a * b", "a < b", "a <= b", "a == b", "a != b", "a >= b", "sort([a, b])", "sort_by([{x: a}, {x: b}], &x)[*].x",
	"max([a, b])", "min([a, b])", "sum([a, b])", "avg([a, a])", "abs(a)", "ceil(a)", "floor(a)", "-a", "!a", "a && b", "type(a)", "to_number(a)",
	"contains([a], b)", "pad_left('x', a)", "pad_right('x', a, '-')", "find_first('abcabc', 'b', a)", "find_last('abcabc', 'b', a, b)",
	"split('a,b,c', ',', a)", "replace('aaaa', 'a', 'b', a)", "'abcdef'[a:b]", "to_array(a)[0] == b", "[a, b][?@ > `1`]", "max_by([{x: a}, {x: b}], &x).x == a",
	"a // b", "a % b",
}

// H_C14_carriers
func H_C14_carriers() {
	k := vrtChoose("expr", len(c14Exprs))
	expr := c14Exprs[k]
	vrtNote("template:" + expr)
	va := vrtIntRange("va", -6, 6)
	vb := vrtIntRange("vb", -6, 6)
	if expr == "a // b" || expr == "a % b" {
		// every sign combination: which rounding is used is the specification's
		// business (C05), but it may not depend on the carrier
		vrtAssume(vb != 0)
	}
	c1 := vrtChoose("carrier1", c14Carriers)
	c2 := vrtChoose("carrier2", c14Carriers)
	vrtAssume(c1 < c2)
	a1, ok1 := c14Carry(va, c1)
	a2, ok2 := c14Carry(va, c2)
	b1, ok3 := c14Carry(vb, c1)
	b2, ok4 := c14Carry(vb, c2)
	vrtAssume(ok1 && ok2 && ok3 && ok4)
	if vrtBool("mixed") {
		// only b changes its carrier: operands of two different Go types meet
		a2 = a1
	}
	r1, err1 := Search(expr, map[string]any{"a": a1, "b": b1})
	r2, err2 := Search(expr, map[string]any{"a": a2, "b": b2})
	vrtAssert((err1 == nil) == (err2 == nil), "one number type fails where the other succeeds")
	if err1 != nil || err2 != nil {
		if err1 != nil && err2 != nil {
			vrtAssert(classOf(err1) == classOf(err2), "error category depends on the Go number type")
		}
		return
	}
	vrtAssert(refEqual(r1, r2), "result depends on the Go type that carries the number")
	vrtReach("compared")
}

// H_C14_wide: binary floating-point leaves whose exact value needs more digits
// than the shortest round-trip text shows (2^30, 2^-20, 10^10 as float32;
// 2^60, 2^-40 as float64), against the same value carried as integer, decimal
// text and decimal: conversion must be exact, not via the shortest text.
var c14Wide32 = []float32{1073741824, 9.5367431640625e-07, 1e10, 16777216, 0.5, 8589934592, 1.52587890625e-05, 33554432}
var c14WideText = []string{"1073741824", "0.00000095367431640625", "10000000000", "16777216", "0.5", "8589934592", "0.0000152587890625", "33554432"}
var c14Wide64 = []float64{1152921504606846976, 9.094947017729282379150390625e-13, 1e22, 9007199254740992, 0.1, 4611686018427387904, 1.4551915228366851806640625e-11, 72057594037927936}
var c14Wide64Text = []string{"1152921504606846976", "0.000000000000909494701772928237915039062500", "10000000000000000000000", "9007199254740992", "0.1000000000000000055511151231257827021181583404541015625", "4611686018427387904", "0.000000000014551915228366851806640625", "72057594037927936"}

var c14WideExprs = []string{"a == b", "a != b", "a < b", "a > b", "a <= b", "contains([a], b)", "a - b == `0`", "max([a, b]) == min([a, b])", "sort([a, b])[0] == sort([b, a])[0]", "[a][?@ == b] | length(@)", "sum([a]) == b", "abs(a) == b", "a + `0` == b"}

func H_C14_wide() {
	i := vrtChoose("value", len(c14Wide32))
	expr := c14WideExprs[vrtChoose("expr", len(c14WideExprs))]
	vrtNote("template:" + expr)
	var a any
	var text string
	if vrtBool("f64") {
		a, text = c14Wide64[i], c14Wide64Text[i]
	} else {
		a, text = c14Wide32[i], c14WideText[i]
	}
	var b any
	if vrtBool("decimal") {
		d, err := decimal128.Parse(text)
		vrtAssume(err == nil)
		b = d
	} else {
		b = json.Number(text)
	}
	// reference: both operands as exact decimal text
	want, ec := refSearch(expr, map[string]any{"a": json.Number(text), "b": json.Number(text)})
	got, err := Search(expr, map[string]any{"a": a, "b": b})
	if ec != ecNone {
		return
	}
	vrtAssert(err == nil, "unexpected error")
	if err == nil {
		vrtAssert(refEqual(got, want), "a float leaf is not converted exactly")
	}
}

// c14Big returns value v (any int64 / uint64 magnitude, given as hi*2^32+lo with
// symbolic parts) in carrier k, if it fits.
func c14CarryBig(v uint64, neg bool, k int) (any, bool) {
	switch k {
	case 0:
		if neg {
			return vrtJNumFrom(-int(v), nfInt), v <= 1<<63-1
		}
		if v > 1<<63-1 {
			return nil, false
		}
		return vrtJNumFrom(int(v), nfInt), true
	case 1:
		if neg {
			return -int(v), v <= 1<<63-1
		}
		return int(v), v <= 1<<63-1
	case 2:
		if neg {
			return -int64(v), v <= 1<<63-1
		}
		return int64(v), v <= 1<<63-1
	case 3:
		return uint(v), !neg
	case 4:
		return v, !neg
	case 5:
		if v > 1<<53 {
			return nil, false // not exactly representable: excluded before converting
		}
		if neg {
			return -float64(v), true
		}
		return float64(v), true
	case 6:
		if neg {
			if v > 1<<31 {
				return nil, false
			}
			return int32(-int64(v)), true
		}
		if v > 1<<31-1 {
			return nil, false
		}
		return int32(v), true
	case 7:
		if neg || v > 1<<32-1 {
			return nil, false
		}
		return uint32(v), true
	default:
		if neg {
			return decimal128.FromInt64(-int64(v)), v <= 1<<63-1
		}
		return decimal128.FromUint64(v), true
	}
}

var c14BigExprs = []string{"a + b", "a - b", "a * b", "a < b", "a == b", "a > `0`", "abs(a)", "max([a, b])", "sort([a, b])", "sum([a, b])", "a // b", "a % b", "-a", "[a, b][?@ > `9007199254740992`]", "ceil(a)"}

// H_C14_extremes: values near the limits of the carriers (2^31, 2^32, 2^53,
// 2^63, 2^64) and operands carried by *different* Go types.
func H_C14_extremes() {
	expr := c14BigExprs[vrtChoose("expr", len(c14BigExprs))]
	vrtNote("template:" + expr)
	bases := []uint64{1 << 31, 1 << 32, 1 << 53, 1 << 63, 1<<64 - 2}
	base := bases[vrtChoose("base", len(bases))]
	d := vrtIntRange("delta", -2, 2)
	var va uint64
	if d < 0 {
		va = base - uint64(-d)
	} else {
		vrtAssume(base <= 1<<64-1-2 || d <= 1)
		va = base + uint64(d)
	}
	vb := uint64(1 + vrtChoose("vb", 3)) // concrete: a symbolic divisor makes % and // non-linear
	neg := vrtBool("neg")
	// a is carried by two different types; b by one of four (so that pairs of
	// operands of *different* kinds - float with integer, text with decimal -
	// occur), the same in both evaluations
	ca1, ca2 := vrtChoose("ca1", 9), vrtChoose("ca2", 9)
	vrtAssume(ca1 < ca2)
	cbs := []int{0, 2, 5, 8}
	cb1 := cbs[vrtChoose("cb", len(cbs))]
	cb2 := cb1
	a1, ok1 := c14CarryBig(va, neg, ca1)
	a2, ok2 := c14CarryBig(va, neg, ca2)
	b1, ok3 := c14CarryBig(vb, false, cb1)
	b2, ok4 := c14CarryBig(vb, false, cb2)
	vrtAssume(ok1 && ok2 && ok3 && ok4)
	// all intermediate values must be exactly representable in every carrier:
	// results of arithmetic on values above 2^53 are not representable as
	// float64, so floats only take part in comparisons and selections there
	arith := expr == "a + b" || expr == "a - b" || expr == "a * b" || expr == "sum([a, b])" || expr == "a // b" || expr == "a % b"
	if arith && va >= 1<<52 {
		// float (op) float is computed in binary64: its result must be representable
		vrtAssume(!(cb1 == 5 && (ca1 == 5 || ca2 == 5)))
	}
	if (expr == "a // b" || expr == "a % b") && neg {
		return
	}
	r1, err1 := Search(expr, map[string]any{"a": a1, "b": b1})
	r2, err2 := Search(expr, map[string]any{"a": a2, "b": b2})
	vrtAssert((err1 == nil) == (err2 == nil), "one number type fails where the other succeeds")
	if err1 != nil || err2 != nil {
		if err1 != nil && err2 != nil {
			vrtAssert(classOf(err1) == classOf(err2), "error category depends on the Go number type")
		}
		return
	}
	vrtAssert(refEqual(r1, r2), "result depends on the Go type that carries the number")
	vrtReach("compared")
}

// H_C14_coerce: integer parameters given as huge, exactly representable values
// (powers of two around the limits of int64 / uint64 and of the float formats)
// in every carrier that holds the value exactly: all carriers give the same
// outcome (the same value, or an error of the same class).
var c14CoerceExprs = []string{"find_first('abcabc', 'c', a)", "find_last('abcabc', 'c', a)", "find_first('abcabc', 'c', `1`, a)", "split('a,b,c', ',', a)", "replace('aaa', 'a', 'b', a)", "find_first('abcabc', 'c', -a)"}

type c14Huge struct {
	text string
	f64  float64
	f32  float32
	hasI bool
	i    int64
	hasU bool
	u    uint64
}

var c14HugeValues = []c14Huge{
	{"9007199254740992", 9007199254740992, 9007199254740992, true, 9007199254740992, true, 9007199254740992},
	{"4611686018427387904", 4611686018427387904, 4611686018427387904, true, 4611686018427387904, true, 4611686018427387904},
	{"9223372036854775808", 9223372036854775808, 9223372036854775808, false, 0, true, 9223372036854775808},
	{"18446744073709551616", 18446744073709551616, 18446744073709551616, false, 0, false, 0},
	{"-9223372036854775808", -9223372036854775808, -9223372036854775808, true, -9223372036854775808, false, 0},
	{"-18446744073709551616", -18446744073709551616, -18446744073709551616, false, 0, false, 0},
	{"9223372036854774784", 9223372036854774784, 0, true, 9223372036854774784, true, 9223372036854774784},
	{"2147483648", 2147483648, 2147483648, true, 2147483648, true, 2147483648},
	{"4", 4, 4, true, 4, true, 4},
}

func H_C14_coerce() {
	expr := c14CoerceExprs[vrtChoose("expr", len(c14CoerceExprs))]
	vrtNote("template:" + expr)
	h := c14HugeValues[vrtChoose("value", len(c14HugeValues))]
	d, derr := decimal128.Parse(h.text)
	vrtAssume(derr == nil)
	carriers := []any{json.Number(h.text), d, h.f64}
	if h.f32 != 0 {
		carriers = append(carriers, h.f32)
	}
	if h.hasI {
		carriers = append(carriers, h.i)
	}
	if h.hasU {
		carriers = append(carriers, h.u)
	}
	k := 1 + vrtChoose("carrier", 5)
	vrtAssume(k < len(carriers))
	r1, err1 := Search(expr, map[string]any{"a": carriers[0]})
	r2, err2 := Search(expr, map[string]any{"a": carriers[k]})
	vrtAssert((err1 == nil) == (err2 == nil), "one number type fails where the other succeeds")
	if err1 != nil || err2 != nil {
		if err1 != nil && err2 != nil {
			vrtAssert(classOf(err1) == classOf(err2), "error category depends on the Go number type")
		}
		return
	}
	vrtAssert(refEqual(r1, r2), "result depends on the Go type that carries the number")
}

// H_C14_close: two values that lie within two units of each other at the
// limits of the carriers (2^24, 2^31, 2^32, 2^53, 2^63, 2^64), each in its own
// carrier: comparisons, equality and selection give what the exact integers
// give (a binary-float detour merges neighbours above 2^53 / 2^24).
var c14CloseExprs = []string{"a == b", "a != b", "a < b", "a <= b", "a > b", "contains([a], b)", "max([a, b]) == a", "sort([a, b])[0] == a", "[a][?@ == $.b] | length(@)", "b == a", "contains([b], a)"}

func H_C14_close() {
	expr := c14CloseExprs[vrtChoose("expr", len(c14CloseExprs))]
	vrtNote("template:" + expr)
	bases := []uint64{1 << 24, 1 << 31, 1 << 32, 1 << 53, 1 << 63, 1<<64 - 3}
	base := bases[vrtChoose("base", len(bases))]
	dx := vrtIntRange("dx", -2, 2)
	dy := vrtIntRange("dy", -2, 2)
	vx, vy := base+uint64(dx), base+uint64(dy) // wraps correctly for negative deltas
	ca, cb := vrtChoose("ca", 9), vrtChoose("cb", 9)
	a, ok1 := c14CarryBig(vx, false, ca)
	b, ok2 := c14CarryBig(vy, false, cb)
	vrtAssume(ok1 && ok2)
	got, err := Search(expr, map[string]any{"a": a, "b": b})
	vrtAssert(err == nil, "comparison evaluates")
	if err != nil {
		return
	}
	var want any
	switch expr {
	case "a == b", "contains([a], b)", "b == a", "contains([b], a)":
		want = vx == vy
	case "a != b":
		want = vx != vy
	case "a < b":
		want = vx < vy
	case "a <= b", "sort([a, b])[0] == a":
		want = vx <= vy
	case "a > b":
		want = vx > vy
	case "max([a, b]) == a":
		want = vx >= vy
	default:
		if vx == vy {
			want = int64(1)
		} else {
			want = int64(0)
		}
	}
	vrtAssert(refEqual(got, want), "comparison of neighbouring values depends on the Go types that carry them")
}
