package jmespath

import "unicode/utf8"

// C16: every string and key can be written literally and decodes to itself.
// s is a symbolic string of valid UTF-8 code points; harness-side escapers
// build the literal; the real lexer and decoders run on the symbolic bytes.

const hexDigits = "0123456789abcdef"

func escRaw(s string) string {
	out := ""
	for i := 0; i < len(s); i++ {
		c := s[i]
		if c == '\'' || c == '\\' {
			out += "\\"
		}
		out += string([]byte{c})
	}
	return out
}

// hexByte avoids a table lookup (a symbolic index would fork sixteen ways).
func hexByte(d rune) byte {
	if d < 10 {
		return byte('0' + d)
	}
	return byte('a' + d - 10)
}

func u4(r rune) string {
	return "\\u" + string([]byte{hexByte((r >> 12) & 15), hexByte((r >> 8) & 15), hexByte((r >> 4) & 15), hexByte(r & 15)})
}

// escJSON escapes s as the body of a JSON string; mode 1 spells every code
// point above ASCII as \uXXXX (surrogate pairs for astral ones).
func escJSON(s string, mode int) string {
	out := ""
	for len(s) > 0 {
		r, sz := utf8.DecodeRuneInString(s)
		switch {
		case r == '"':
			out += "\\\""
		case r == '\\':
			out += "\\\\"
		case r < 0x20:
			if vrtTier() == 0 {
				// quick: three representative control characters (the escape's hex
				// digits are symbolic otherwise, which multiplies the paths)
				vrtAssume(r == 0 || r == 10 || r == 31)
			}
			out += u4(r)
		case r >= 0x80 && mode == 1:
			if r >= 0x10000 {
				v := r - 0x10000
				out += u4(0xD800+(v>>10)) + u4(0xDC00+(v&0x3FF))
			} else {
				out += u4(r)
			}
		default:
			out += s[:sz]
		}
		s = s[sz:]
	}
	return out
}

func escBacktick(s string) string {
	out := ""
	for i := 0; i < len(s); i++ {
		if s[i] == '`' {
			out += "\\"
		}
		out += string([]byte{s[i]})
	}
	return out
}

// c16Escaped: strings whose \uXXXX spelling is exercised. The quick tier uses a
// battery of boundary code points around one symbolic ASCII character (the hex
// digits of a symbolic code point make the queries hard for the solver); the
// thorough tier uses a symbolic code point.
var c16Battery = []string{"\u00e9", "\u0080", "\u07ff", "\u0800", "\u20ac", "\ufffd", "\uffff", "\U00010000", "\U0001f600", "\U0010ffff", "\u0000", "\u001f", "\u007f"}

func c16Escaped(name string) string {
	if vrtTier() == 1 {
		return vrtStr(name, 1, smUTF8|(0x4f<<2)) + vrtStr(name+"2", 1, smASCII)
	}
	return c16Battery[vrtChoose("cp", len(c16Battery))] + vrtStr(name+"2", 1, smASCII)
}

func c16Str(name string) string { return c16StrN(name, 2, 3) }

func c16StrN(name string, quick, thorough int) string {
	n := quick
	if vrtTier() == 1 {
		n = thorough
	}
	return vrtStr(name, n, smUTF8|(0x4f<<2))
}

// H_C16_raw: 'escaped s' evaluates to s.
func H_C16_raw() {
	s := c16Str("s")
	got, err := Search("'"+escRaw(s)+"'", nil)
	vrtAssert(err == nil, "raw string literal of a valid string must compile and evaluate")
	if err == nil {
		g, ok := got.(string)
		vrtAssert(ok && g == s, "raw string literal does not decode to itself")
	}
}

// H_C16_rawkeep: a backslash before any other character is preserved.
func H_C16_rawkeep() {
	c := vrtStrN("c", 1, smUTF8|(0x4f<<2))
	vrtAssume(c != "'" && c != "\\")
	t := vrtStr("t", 1, smASCII)
	vrtAssume(t != "'" && t != "\\")
	got, err := Search("'"+t+"\\"+c+"'", nil)
	vrtAssert(err == nil, "raw string with a preserved escape compiles")
	if err == nil {
		vrtAssert(got == any(t+"\\"+c), "backslash before an ordinary character is not preserved verbatim")
	}
}

// H_C16_quoted: "escaped s" selects the member named s.
func H_C16_quoted() {
	mode := vrtChoose("escape_mode", 2)
	var s string
	if mode == 1 {
		s = c16Escaped("s")
	} else {
		s = c16Str("s")
	}
	expr := "\"" + escJSON(s, mode) + "\""
	doc := map[string]any{s: int64(7), "other": int64(1)}
	got, err := Search(expr, doc)
	vrtAssert(err == nil, "quoted identifier of a valid key must compile")
	if err == nil {
		if s == "other" {
			return
		}
		vrtAssert(got == any(int64(7)), "quoted identifier does not select the member named s")
	}
}

// H_C16_json: `"escaped s"` evaluates to s (backticks escaped).
func H_C16_json() {
	mode := vrtChoose("escape_mode", 2)
	var s string
	if mode == 1 {
		s = c16Escaped("s")
	} else {
		s = c16Str("s")
	}
	expr := "`" + escBacktick("\""+escJSON(s, mode)+"\"") + "`"
	got, err := Search(expr, nil)
	vrtAssert(err == nil, "JSON string literal of a valid string must compile")
	if err == nil {
		g, ok := got.(string)
		vrtAssert(ok && g == s, "JSON string literal does not decode to itself")
	}
}

var c16JSONValues = []string{
	"1", "-0", "1.50", "1e2", "12345678901234567890123456789012345678", "9007199254740993", "-9007199254740993", "1234567890123456789", "9223372036854775807", "9223372036854775809", "18446744073709551615", "[9007199254740993]", "0.1000000000000000055511151231257827", "true", "false", "null",
	"[]", "{}", "[1, [2, {\"a\": null}]]", "{\"a\": {\"b\": [1.0, \"x\"]}}", "\"\"", "\"a`b\"", " 1 ", "[\"`\"]", "{\"k`\": 1}",
}

// H_C16_jsonvalues: every JSON value between backticks evaluates to that
// value, numbers at full precision.
func H_C16_jsonvalues() {
	k := vrtChoose("value", len(c16JSONValues))
	text := c16JSONValues[k]
	expr := "`" + escBacktick(text) + "`"
	vrtNote("template:" + expr)
	got, err := Search(expr, nil)
	want, ok := refDecodeJSON(text)
	vrtAssert(ok, "harness: valid JSON")
	vrtAssert(err == nil, "JSON literal must compile")
	if err == nil {
		vrtAssert(refEqual(got, want), "JSON literal does not evaluate to its value")
		// full precision: the number's text survives
		ts, terr := Search("to_string("+expr+")", nil)
		_ = ts
		vrtAssert(terr == nil, "to_string of a literal")
	}
}
