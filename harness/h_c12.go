package jmespath

import (
	"errors"
	"unicode/utf8"
)

// C12: slices select exactly the elements of the start:stop:step walk.

// refSliceIndices is the specification's slice algorithm (Python semantics)
// written with clamp-before-add arithmetic, so that nothing can overflow.
func refSliceIndices(n int, start, stop, step int, hasStart, hasStop bool) []int {
	var out []int
	if step > 0 {
		lo := 0
		if hasStart {
			if start < 0 {
				if start < -n {
					lo = 0
				} else {
					lo = start + n
				}
			} else if start > n {
				lo = n
			} else {
				lo = start
			}
		}
		hi := n
		if hasStop {
			if stop < 0 {
				if stop < -n {
					hi = 0
				} else {
					hi = stop + n
				}
			} else if stop > n {
				hi = n
			} else {
				hi = stop
			}
		}
		for i := lo; i < hi; {
			out = append(out, i)
			if step >= hi-i {
				break
			}
			i += step
		}
		return out
	}
	// step < 0
	hi := n - 1
	if hasStart {
		if start < 0 {
			if start < -n {
				hi = -1
			} else {
				hi = start + n
			}
		} else if start >= n {
			hi = n - 1
		} else {
			hi = start
		}
	}
	lo := -1
	if hasStop {
		if stop < 0 {
			if stop < -n {
				lo = -1
			} else {
				lo = stop + n
			}
		} else if stop >= n {
			lo = n - 1
		} else {
			lo = stop
		}
	}
	for i := hi; i > lo; {
		out = append(out, i)
		// i + step > lo  <=>  step > lo - i ; avoid overflow
		if step <= lo-i {
			break
		}
		i += step
	}
	return out
}

var c12Patterns = []string{"[%d:%d:%d]", "[%d:%d]", "[%d:]", "[:%d]", "[::%d]", "[%d::%d]", "[:%d:%d]", "[:]", "[::]", "[%d:%d:]"}

func c12Template(k int) (expr string, start, stop, step int, hasStart, hasStop bool) {
	step = 1
	switch k {
	case 0:
		start, stop, step = vrtInt("start"), vrtInt("stop"), vrtInt("step")
		vrtAssume(step != 0)
		return vrtMagic("[%d:%d:%d]", start, stop, step), start, stop, step, true, true
	case 1:
		start, stop = vrtInt("start"), vrtInt("stop")
		return vrtMagic("[%d:%d]", start, stop), start, stop, 1, true, true
	case 2:
		start = vrtInt("start")
		return vrtMagic("[%d:]", start), start, 0, 1, true, false
	case 3:
		stop = vrtInt("stop")
		return vrtMagic("[:%d]", stop), 0, stop, 1, false, true
	case 4:
		step = vrtInt("step")
		vrtAssume(step != 0)
		return vrtMagic("[::%d]", step), 0, 0, step, false, false
	case 5:
		start, step = vrtInt("start"), vrtInt("step")
		vrtAssume(step != 0)
		return vrtMagic("[%d::%d]", start, step), start, 0, step, true, false
	case 6:
		stop, step = vrtInt("stop"), vrtInt("step")
		vrtAssume(step != 0)
		return vrtMagic("[:%d:%d]", stop, step), 0, stop, step, false, true
	case 7:
		return "[:]", 0, 0, 1, false, false
	case 8:
		return "[::]", 0, 0, 1, false, false
	default:
		start, stop = vrtInt("start"), vrtInt("stop")
		return vrtMagic("[%d:%d:]", start, stop), start, stop, 1, true, true
	}
}

// H_C12_array: arrays of length 0..N with distinct marker elements.
func H_C12_array() {
	maxN := 4
	if vrtTier() == 1 {
		maxN = 6
	}
	n := vrtChoose("n", maxN+1)
	doc := make([]any, n, n+1)
	for i := 0; i < n; i++ {
		doc[i] = int64(100 + i)
	}
	k := vrtChoose("pattern", len(c12Patterns))
	expr, start, stop, step, hasStart, hasStop := c12Template(k)
	got, err := Search(expr, doc)
	want := refSliceIndices(n, start, stop, step, hasStart, hasStop)
	vrtAssert(err == nil, "slice with non-zero step must not fail")
	arr, ok := got.([]any)
	vrtAssert(ok, "slice of an array is an array")
	vrtAssert(len(arr) == len(want), "slice length")
	for i := range want {
		if i < len(arr) {
			v, isInt := arr[i].(int64)
			vrtAssert(isInt && v == int64(100+want[i]), "slice element")
		}
	}
	vrtReach("end")
}

// cpSplit splits valid UTF-8 text into its code points (as substrings).
func cpSplit(s string) []string {
	var out []string
	for len(s) > 0 {
		_, sz := utf8.DecodeRuneInString(s)
		out = append(out, s[:sz])
		s = s[sz:]
	}
	return out
}

// H_C12_string: strings of 0..N code points, each 1..4 bytes wide.
func H_C12_string() {
	maxN := 3
	if vrtTier() == 1 {
		maxN = 4
	}
	n := vrtChoose("n", maxN+1)
	mode := smUTF8 | (0x4f << 2) // 1- to 4-byte classes and the class that holds U+FFFD
	if vrtTier() == 0 && n == 3 {
		mode = smUTF8 | (0x41 << 2) // quick: three code points only in the 1-byte class and the 3-byte class that holds U+FFFD
	}
	if n <= 2 {
		// every class of UTF-8 lead byte (C2..DF, E0, E1..EC, ED, EE..EF, F0, F1..F3, F4)
		mode = smUTF8 | (0x1ff << 2)
	}
	s := vrtStrN("s", n, mode)
	k := vrtChoose("pattern", len(c12Patterns))
	expr, start, stop, step, hasStart, hasStop := c12Template(k)
	got, err := Search(expr, s)
	cps := cpSplit(s)
	vrtAssert(len(cps) == n, "harness: code point count")
	idx := refSliceIndices(n, start, stop, step, hasStart, hasStop)
	want := ""
	for _, i := range idx {
		want += cps[i]
	}
	vrtAssert(err == nil, "string slice with non-zero step must not fail")
	gs, ok := got.(string)
	vrtAssert(ok, "slice of a string is a string")
	vrtAssert(gs == want, "string slice selects the code points of the walk")
	vrtReach("end")
}

// H_C12_stepzero: step 0 is an invalid-value error for every operand, and the
// only slice error.
func H_C12_stepzero() {
	var doc any
	switch vrtChoose("doc", 3) {
	case 0:
		doc = []any{int64(1), int64(2)}
	case 1:
		doc = "ab"
	default:
		doc = vrtDoc("d", 1, uJSON, uScalar)
	}
	start, stop := vrtInt("start"), vrtInt("stop")
	var expr string
	switch vrtChoose("pattern", 3) {
	case 0:
		expr = vrtMagic("[%d:%d:0]", start, stop)
	case 1:
		expr = "[::0]"
	default:
		expr = vrtMagic("[%d::0]", start)
	}
	got, err := Search(expr, doc)
	vrtAssert(err != nil && errors.Is(err, ErrInvalidValue), "step 0 is invalid-value")
	vrtAssert(got == nil, "failed call returns nil")
	_, cerr := Compile(expr)
	vrtAssert(cerr != nil && errors.Is(cerr, ErrInvalidValue), "step 0 is reported by Compile")
}

// H_C12_shape: a slice of an array starts a projection; a slice of a string
// yields a string that following selectors see as a whole; other values give null.
func H_C12_shape() {
	start, stop := vrtInt("start"), vrtInt("stop")
	switch vrtChoose("case", 3) {
	case 0:
		// projection: a[s:e].x applied per element, nulls dropped
		n := vrtChoose("n", 4)
		arr := make([]any, n)
		present := make([]bool, n)
		for i := range arr {
			if vrtBool("has") {
				arr[i] = map[string]any{"x": int64(10 + i)}
				present[i] = true
			} else {
				arr[i] = map[string]any{"y": int64(0)}
			}
		}
		got, err := Search(vrtMagic("[%d:%d].x", start, stop), arr)
		vrtAssert(err == nil, "projection over slice must not fail")
		idx := refSliceIndices(n, start, stop, 1, true, true)
		var want []int64
		for _, i := range idx {
			if present[i] {
				want = append(want, int64(10+i))
			}
		}
		ga, ok := got.([]any)
		vrtAssert(ok && len(ga) == len(want), "slice projection length")
		for i := range want {
			if ok && i < len(ga) {
				v, isI := ga[i].(int64)
				vrtAssert(isI && v == want[i], "slice projection element")
			}
		}
	case 1:
		s := vrtStrN("s", 2, smASCII)
		got, err := Search(vrtMagic("length(@[%d:%d])", start, stop), s)
		idx := refSliceIndices(2, start, stop, 1, true, true)
		vrtAssert(err == nil, "length of string slice")
		v, isI := got.(int64)
		vrtAssert(isI && v == int64(len(idx)), "string slice yields a string (length counts its code points)")
	default:
		doc := vrtDoc("d", 1, uNil|uBool|uJNum|uObj, uScalar)
		got, err := Search(vrtMagic("[%d:%d]", start, stop), doc)
		vrtAssert(err == nil && got == nil, "slice of a non-array, non-string is null")
	}
}

// H_C12_spellings: the number spellings the grammar allows for slice parts
// and index literals (a sign, leading zeros) denote their value: "-0" and
// "00" are zero (a zero step is an invalid-value error, whatever its
// spelling), "01" is one, "-01" is minus one.
var c12Spell = []string{"", "0", "-0", "00", "1", "01", "-1", "-01", "2", "-2", "3", "-3"}
var c12SpellVal = []int{0, 0, 0, 0, 1, 1, -1, -1, 2, -2, 3, -3}

func H_C12_spellings() {
	a := vrtChoose("start", len(c12Spell))
	b := vrtChoose("stop", len(c12Spell))
	c := vrtChoose("step", len(c12Spell))
	onString := vrtBool("string")
	expr := "[" + c12Spell[a] + ":" + c12Spell[b] + ":" + c12Spell[c] + "]"
	vrtNote("template:" + expr)
	var doc any
	if onString {
		doc = "abcd"
		expr = "@" + expr
	} else {
		doc = []any{int64(0), int64(1), int64(2), int64(3)}
	}
	got, err := Search(expr, doc)
	step := c12SpellVal[c]
	if c == 0 {
		step = 1
	}
	if step == 0 {
		vrtAssert(err != nil && errors.Is(err, ErrInvalidValue), "a zero step is an invalid-value error in every spelling")
		return
	}
	vrtAssert(err == nil, "slice evaluates")
	if err != nil {
		return
	}
	idx := refSliceIndices(4, c12SpellVal[a], c12SpellVal[b], step, a != 0, b != 0)
	if onString {
		s, ok := got.(string)
		vrtAssert(ok && len(s) == len(idx), "string slice length")
		if ok && len(s) == len(idx) {
			for i, j := range idx {
				vrtAssert(s[i] == "abcd"[j], "string slice selects the characters of the walk")
			}
		}
		return
	}
	arr, ok := got.([]any)
	vrtAssert(ok && len(arr) == len(idx), "array slice length")
	if ok && len(arr) == len(idx) {
		for i, j := range idx {
			vrtAssert(arr[i] == any(int64(j)), "array slice selects the elements of the walk")
		}
	}
}
