package jmespath

// C12: slices select exactly the elements of the start:stop:step walk.

// refSliceIndices is the specification's slice algorithm (Python semantics)
// written with clamp-before-add arithmetic, so that nothing can overflow.
func refSliceIndices(n int, start, stop, step int, hasStart, hasStop bool) []int {
	var out []int
	if step > 0 {
		lo := 0
		if hasStart {
			if start < 0 {
				if start < -n {
					lo = 0
				} else {
					lo = start + n
				}
			} else if start > n {
				lo = n
			} else {
				lo = start
			}
		}
		hi := n
		if hasStop {
			if stop < 0 {
				if stop < -n {
					hi = 0
				} else {
					hi = stop + n
				}
			} else if stop > n {
				hi = n
			} else {
				hi = stop
			}
		}
		for i := lo; i < hi; {
			out = append(out, i)
			if step >= hi-i {
				break
			}
			i += step
		}
		return out
	}
	// step < 0
	hi := n - 1
	if hasStart {
		if start < 0 {
			if start < -n {
				hi = -1
			} else {
				hi = start + n
			}
		} else if start >= n {
			hi = n - 1
		} else {
			hi = start
		}
	}
	lo := -1
	if hasStop {
		if stop < 0 {
			if stop < -n {
				lo = -1
			} else {
				lo = stop + n
			}
		} else if stop >= n {
			lo = n - 1
		} else {
			lo = stop
		}
	}
	for i := hi; i > lo; {
		out = append(out, i)
		// i + step > lo  <=>  step > lo - i ; avoid overflow
		if step <= lo-i {
			break
		}
		i += step
	}
	return out
}

var c12Patterns = []string{"[%d:%d:%d]", "[%d:%d]", "[%d:]", "[:%d]", "[::%d]", "[%d::%d]", "[:%d:%d]", "[:]", "[::]", "[%d:%d:]"}

func c12Template(k int) (expr string, start, stop, step int, hasStart, hasStop bool) {
	step = 1
	switch k {
	case 0:
		start, stop, step = vrtInt("start"), vrtInt("stop"), vrtInt("step")
		vrtAssume(step != 0)
		return vrtMagic("[%d:%d:%d]", start, stop, step), start, stop, step, true, true
	case 1:
		start, stop = vrtInt("start"), vrtInt("stop")
		return vrtMagic("[%d:%d]", start, stop), start, stop, 1, true, true
	case 2:
		start = vrtInt("start")
		return vrtMagic("[%d:]", start), start, 0, 1, true, false
	case 3:
		stop = vrtInt("stop")
		return vrtMagic("[:%d]", stop), 0, stop, 1, false, true
	case 4:
		step = vrtInt("step")
		vrtAssume(step != 0)
		return vrtMagic("[::%d]", step), 0, 0, step, false, false
	case 5:
		start, step = vrtInt("start"), vrtInt("step")
		vrtAssume(step != 0)
		return vrtMagic("[%d::%d]", start, step), start, 0, step, true, false
	case 6:
		stop, step = vrtInt("stop"), vrtInt("step")
		vrtAssume(step != 0)
		return vrtMagic("[:%d:%d]", stop, step), 0, stop, step, false, true
	case 7:
		return "[:]", 0, 0, 1, false, false
	case 8:
		return "[::]", 0, 0, 1, false, false
	default:
		start, stop = vrtInt("start"), vrtInt("stop")
		return vrtMagic("[%d:%d:]", start, stop), start, stop, 1, true, true
	}
}

// H_C12_array: arrays of length 0..N with distinct marker elements.
func H_C12_array() {
	maxN := 4
	if vrtTier() == 1 {
		maxN = 6
	}
	n := vrtChoose("n", maxN+1)
	doc := make([]any, n, n+1)
	for i := 0; i < n; i++ {
		doc[i] = int64(100 + i)
	}
	k := vrtChoose("pattern", len(c12Patterns))
	expr, start, stop, step, hasStart, hasStop := c12Template(k)
	got, err := Search(expr, doc)
	want := refSliceIndices(n, start, stop, step, hasStart, hasStop)
	vrtAssert(err == nil, "slice with non-zero step must not fail")
	arr, ok := got.([]any)
	vrtAssert(ok, "slice of an array is an array")
	vrtAssert(len(arr) == len(want), "slice length")
	for i := range want {
		if i < len(arr) {
			v, isInt := arr[i].(int64)
			vrtAssert(isInt && v == int64(100+want[i]), "slice element")
		}
	}
	vrtReach("end")
}
