package jmespath

import (
	"math"
	"sync"
)

// C07: compiled expressions and Search are safe for concurrent use.
// Decided by non-interference: if no path of Search / Compile /
// Expression.Search writes an object another call can reach (document, AST,
// package-level variables), concurrent calls have no conflicting accesses in
// any interleaving and each computes the function it computes alone.
// Symbolically the shared-write monitor decides every path; natively the same
// harness runs the calls from several goroutines (go test -race in replay).

// H_C07_noshared: the evaluation side (shares the templates of C06).
func H_C07_noshared() { c07NoShared(c06Exprs) }

// H_C07_generated: the generated function x argument templates of C06.
func H_C07_generated() { c07NoShared(c06Gen()) }

func c07NoShared(exprs []string) {
	k := vrtChoose("expr", len(exprs))
	expr := exprs[k]
	vrtNote("template:" + expr)
	doc := c06Doc()
	snap := deepCopy(doc)
	e, cerr := Compile(expr)
	if cerr != nil {
		return
	}
	un := c06Unordered(expr) || len(exprs) > len(c06Exprs)
	// the monitor covers the very first call too: a write that removes its own
	// trigger (compacting away the nulls it skips) happens only once
	vrtMonitor(true)
	want, werr := e.Search(doc)
	var wsnap any
	if werr == nil {
		wsnap = deepCopy(want)
	}
	if vrtSymbolic() {
		// one call from an arbitrary state in which other calls are in flight:
		// it may not write anything those calls can reach
		_, _ = e.Search(doc)
		_, _ = Search(expr, doc)
		_, _ = Compile(expr)
	} else {
		var wg sync.WaitGroup
		bad := make([]bool, 8)
		for g := 0; g < 8; g++ {
			wg.Add(1)
			go func(g int) {
				defer wg.Done()
				for i := 0; i < 50; i++ {
					var r any
					var err error
					switch (g + i) % 3 {
					case 0:
						r, err = e.Search(doc)
					case 1:
						r, err = Search(expr, doc)
					default:
						e2, _ := Compile(expr)
						r, err = e2.Search(doc)
					}
					if !sameOutcome(want, werr, r, err, un) {
						bad[g] = true
					}
				}
			}(g)
		}
		wg.Wait()
		for _, b := range bad {
			vrtAssert(!b, "a concurrent call returned a different outcome than the call run alone")
		}
	}
	vrtMonitor(false)
	vrtAssert(vrtEventCount("sharedwrite") == 0, "a call wrote to state shared with concurrent calls (document, compiled expression or package-level variable)")
	vrtAssert(deepSame(doc, snap), "shared document modified")
	if werr == nil {
		vrtAssert(deepSame(want, wsnap) || un, "a result handed out earlier changed")
	}
}

var c07Compile = []string{"'it\\'s'", "'a\\\\b\\z'", "\"q\\n\\u00e9\\\"\"", "`\"a\\`b\"`", "'x' == \"y\"", "a.b[0]", "a[*].b | [0]", "{x: a, y: b}", "let $v = a, $w = b in [$v, $w]", "`{\"a\": [1, 2]}`", "'raw'", "\"q\\u0041\"", "sort_by(a, &b)", "a[1:3]", "a[?b > `1`]", "[", "abs()", "nosuch()", "a[::0]"}

// H_C07_compile: parser and lexer write only objects allocated by that call.
func H_C07_compile() {
	expr := c07Compile[vrtChoose("expr", len(c07Compile))]
	vrtNote("template:" + expr)
	vrtMonitor(true)
	e1, err1 := Compile(expr)
	e2, err2 := Compile(expr)
	vrtMonitor(false)
	if !vrtSymbolic() && err1 == nil {
		// natively: concurrent compilations (and one-shot searches) of this and of
		// a second expression must agree with the sequential result
		other := "'o\\'ther\\\\' == \"k\\u0041\""
		want, werr := e1.Search(nil)
		wantO, werrO := Search(other, nil)
		var wg sync.WaitGroup
		bad := make([]bool, 8)
		for g := 0; g < 8; g++ {
			wg.Add(1)
			go func(g int) {
				defer wg.Done()
				for i := 0; i < 200; i++ {
					if (g+i)%2 == 0 {
						e, err := Compile(expr)
						if err != nil {
							bad[g] = true
							continue
						}
						r, rerr := e.Search(nil)
						if !sameOutcome(want, werr, r, rerr, false) {
							bad[g] = true
						}
					} else {
						r, rerr := Search(other, nil)
						if !sameOutcome(wantO, werrO, r, rerr, false) {
							bad[g] = true
						}
					}
				}
			}(g)
		}
		wg.Wait()
		for _, b := range bad {
			vrtAssert(!b, "a concurrent Compile / Search returned a different outcome than run alone")
		}
	}
	vrtAssert(vrtEventCount("sharedwrite") == 0, "Compile wrote to shared state")
	vrtAssert((err1 == nil) == (err2 == nil), "Compile is deterministic")
	if err1 == nil {
		vrtAssert(e1 != e2, "every Compile returns its own Expression")
	}
}

// H_C07_faults: calls that fail at run time (values encoding/json refuses,
// type errors, not-a-number results) interleaved with calls that succeed, on
// one shared document built by the caller: a failing call may not leave
// anything behind that a later or concurrent call can observe (error paths
// are where pooled buffers and caches are released twice or half-filled).
var c07Faulty = []string{"to_string(a[0])", "a[*].to_string(@)", "abs(a[2])", "a[0] + a[1]", "sort(a)", "to_string(c)", "a[1] / `0`", "join(',', a)", "[to_string(a[1]), to_string(c)]", "map(&to_string(@), a)"}
var c07Sound = []string{"to_string(a[1])", "a[1:3].to_string(@)", "to_string(b)", "[to_string(a[1]), to_string(b)]", "join(',', [to_string(a[1]), a[2]])", "length(a)", "to_string(b.p)", "b.q[*].to_string(@) | join('', @)", "to_string(`[1, 2]`)"}

func H_C07_faults() {
	f := c07Faulty[vrtChoose("faulty", len(c07Faulty))]
	s := c07Sound[vrtChoose("sound", len(c07Sound))]
	vrtNote("template:" + f + " / " + s)
	doc := map[string]any{
		"a": []any{math.NaN(), 1.5, "x", map[string]any{"p": math.Inf(1)}},
		"b": map[string]any{"p": 2.5, "q": []any{"u", int64(7), true}},
		"c": map[string]any{"k": float32(math.Inf(-1)), "l": 1.0},
	}
	es, cerr := Compile(s)
	ef, ferr := Compile(f)
	if cerr != nil || ferr != nil {
		vrtAssert(false, "templates compile")
		return
	}
	want, werr := es.Search(doc)
	fwant, fwerr := ef.Search(doc)
	vrtMonitor(true)
	if vrtSymbolic() {
		_, _ = ef.Search(doc)
		got, gerr := es.Search(doc)
		vrtAssert(sameOutcome(want, werr, got, gerr, false), "a call returns something else after another call failed")
		_, _ = Search(f, doc)
		_, _ = ef.Search(doc)
		got, gerr = Search(s, doc)
		vrtAssert(sameOutcome(want, werr, got, gerr, false), "a call returns something else after other calls failed")
	} else {
		var wg sync.WaitGroup
		bad := make([]bool, 8)
		for g := 0; g < 8; g++ {
			wg.Add(1)
			go func(g int) {
				defer wg.Done()
				for i := 0; i < 300; i++ {
					if (g+i)%3 == 0 {
						r, err := ef.Search(doc)
						if !sameOutcome(fwant, fwerr, r, err, false) {
							bad[g] = true
						}
					} else {
						r, err := es.Search(doc)
						if !sameOutcome(want, werr, r, err, false) {
							bad[g] = true
						}
					}
				}
			}(g)
		}
		wg.Wait()
		for _, b := range bad {
			vrtAssert(!b, "a concurrent call returned a different outcome than the call run alone")
		}
	}
	vrtMonitor(false)
	vrtAssert(vrtEventCount("sharedwrite") == 0, "a call wrote to state shared with concurrent calls (document, compiled expression, package-level variable or pooled object)")
}
