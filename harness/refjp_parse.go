package jmespath

// refjp: a short reference model of JMESPath Community, transcribed from the
// specification's grammar and evaluation rules (structure follows the
// reference Pratt parser: binding powers pipe 1 < or 2 < and 3 < comparators 5
// < additive 6 < multiplicative 7 < flatten 9 < star 20 < filter 21 < dot 40
// < not 45 < lbrace 50 < lbracket 55 < lparen 60). It is ordinary Go: the
// engine executes it symbolically next to the implementation, and it runs
// natively when a counterexample is replayed.

import (
	"encoding/json"
	"strconv"
	"strings"
	"unicode/utf8"
)

// ---- error classes --------------------------------------------------------------

const (
	ecNone = iota
	ecSyntax
	ecArity
	ecUnknownFn
	ecType
	ecValue
	ecUndefVar
	ecNaN
	ecUnspecified // the specification (as far as the corpus pins it) does not determine the outcome
)

var ecNames = []string{"none", "syntax", "invalid-arity", "unknown-function", "invalid-type", "invalid-value", "undefined-variable", "not-a-number", "unspecified"}

// ecOfError maps a public error to its class.
func ecOfError(err error) int {
	if err == nil {
		return ecNone
	}
	switch classOf(err) {
	case 0:
		return ecSyntax
	case 1:
		return ecArity
	case 2:
		return ecUnknownFn
	case 3:
		return ecType
	case 4:
		return ecValue
	case 5:
		return ecUndefVar
	case 6:
		return ecNaN
	}
	return -1
}

// ---- tokens -----------------------------------------------------------------------

const (
	rtEOF = iota
	rtUnquoted
	rtQuoted
	rtRaw     // 'raw string'
	rtLiteral // `json`
	rtNumber
	rtVariable // $name
	rtRoot     // $
	rtDot
	rtStar
	rtLbracket
	rtRbracket
	rtFlatten // []
	rtFilter  // [?
	rtLbrace
	rtRbrace
	rtLparen
	rtRparen
	rtComma
	rtColon
	rtCurrent
	rtExpref
	rtAnd
	rtPipe
	rtOr
	rtNot
	rtNe
	rtEq
	rtLt
	rtLte
	rtGt
	rtGte
	rtPlus
	rtMinus
	rtMultiply // ×
	rtDivide   // / or ÷
	rtDiv      // //
	rtModulo
	rtAssign
)

type rtoken struct {
	typ   int
	text  string // source text
	str   string // decoded value for identifiers / raw strings
	num   int
	val   any  // decoded JSON literal
	space bool // preceded by whitespace
	bad   bool // literal that failed to decode
	big   bool // number does not fit in int
	open  bool // validity left open by the specification
}

func isIdentStart(c byte) bool { return c >= 'A' && c <= 'Z' || c >= 'a' && c <= 'z' || c == '_' }
func isDigit(c byte) bool      { return c >= '0' && c <= '9' }

// refLex tokenises an expression; ok=false means the text has no tokenisation.
func refLex(s string) ([]rtoken, bool) {
	var out []rtoken
	i := 0
	space := false
	add := func(t rtoken) {
		t.space = space
		space = false
		out = append(out, t)
	}
	for i < len(s) {
		c := s[i]
		switch {
		case c == ' ' || c == '\t' || c == '\n' || c == '\r':
			space = true
			i++
		case isIdentStart(c):
			j := i + 1
			for j < len(s) && (isIdentStart(s[j]) || isDigit(s[j])) {
				j++
			}
			add(rtoken{typ: rtUnquoted, text: s[i:j], str: s[i:j]})
			i = j
		case isDigit(c) || (c == '-' && i+1 < len(s) && isDigit(s[i+1])):
			j := i + 1
			for j < len(s) && isDigit(s[j]) {
				j++
			}
			n, err := strconv.Atoi(s[i:j])
			add(rtoken{typ: rtNumber, text: s[i:j], num: n, big: err != nil})
			i = j
		case c == '$':
			j := i + 1
			if j < len(s) && isIdentStart(s[j]) {
				for j < len(s) && (isIdentStart(s[j]) || isDigit(s[j])) {
					j++
				}
				add(rtoken{typ: rtVariable, text: s[i:j], str: s[i:j]})
			} else {
				add(rtoken{typ: rtRoot, text: "$"})
			}
			i = j
		case c == '\'' || c == '"' || c == '`':
			j := i + 1
			for {
				if j >= len(s) {
					return nil, false
				}
				if s[j] == '\\' {
					j += 2
					continue
				}
				if s[j] == c {
					break
				}
				j++
			}
			if j >= len(s) {
				return nil, false
			}
			body := s[i+1 : j]
			if !utf8.ValidString(body) {
				return nil, false
			}
			switch c {
			case '\'':
				add(rtoken{typ: rtRaw, text: s[i : j+1], str: refDecodeRaw(body)})
			case '"':
				v, ok := refDecodeQuoted(body)
				add(rtoken{typ: rtQuoted, text: s[i : j+1], str: v, bad: !ok, open: !ok && refSurrogateOpen(body)})
			default:
				v, ok := refDecodeJSON(body)
				add(rtoken{typ: rtLiteral, text: s[i : j+1], val: v, bad: !ok})
			}
			i = j + 1
		default:
			two := ""
			if i+1 < len(s) {
				two = s[i : i+2]
			}
			t, n := -1, 1
			switch {
			case two == "[]":
				t, n = rtFlatten, 2
			case two == "[?":
				t, n = rtFilter, 2
			case two == "&&":
				t, n = rtAnd, 2
			case two == "||":
				t, n = rtOr, 2
			case two == "!=":
				t, n = rtNe, 2
			case two == "==":
				t, n = rtEq, 2
			case two == "<=":
				t, n = rtLte, 2
			case two == ">=":
				t, n = rtGte, 2
			case two == "//":
				t, n = rtDiv, 2
			case two == "×":
				t, n = rtMultiply, 2
			case two == "÷":
				t, n = rtDivide, 2
			case i+2 < len(s) && s[i:i+3] == "−":
				t, n = rtMinus, 3
			case c == '.':
				t = rtDot
			case c == '*':
				t = rtStar
			case c == '[':
				t = rtLbracket
			case c == ']':
				t = rtRbracket
			case c == '{':
				t = rtLbrace
			case c == '}':
				t = rtRbrace
			case c == '(':
				t = rtLparen
			case c == ')':
				t = rtRparen
			case c == ',':
				t = rtComma
			case c == ':':
				t = rtColon
			case c == '@':
				t = rtCurrent
			case c == '&':
				t = rtExpref
			case c == '|':
				t = rtPipe
			case c == '!':
				t = rtNot
			case c == '<':
				t = rtLt
			case c == '>':
				t = rtGt
			case c == '+':
				t = rtPlus
			case c == '-':
				t = rtMinus
			case c == '/':
				t = rtDivide
			case c == '%':
				t = rtModulo
			case c == '=':
				t = rtAssign
			}
			if t < 0 {
				return nil, false
			}
			add(rtoken{typ: t, text: s[i : i+n]})
			i += n
		}
	}
	add(rtoken{typ: rtEOF})
	return out, true
}

// refDecodeRaw: in a raw string \' is a quote and \\ a backslash; every other
// backslash is preserved together with the character that follows.
func refDecodeRaw(body string) string {
	var sb strings.Builder
	for i := 0; i < len(body); i++ {
		if body[i] == '\\' && i+1 < len(body) && (body[i+1] == '\'' || body[i+1] == '\\') {
			sb.WriteByte(body[i+1])
			i++
			continue
		}
		sb.WriteByte(body[i])
	}
	return sb.String()
}

// refDecodeQuoted: the body of a quoted identifier is the body of a JSON string.
func refDecodeQuoted(body string) (string, bool) {
	var v string
	if err := json.Unmarshal([]byte("\""+body+"\""), &v); err != nil {
		return "", false
	}
	// encoding/json replaces lone surrogates by U+FFFD instead of failing;
	// the grammar requires a low surrogate after a high one
	if !refSurrogatesPaired(body) {
		return "", false
	}
	return v, true
}

// refSurrogateOpen: a surrogate escape followed by another \u escape with which
// it does not form a (high, low) pair - whether that is an error or U+FFFD is
// left open.
func refSurrogateOpen(body string) bool {
	for i := 0; i+12 <= len(body); i++ {
		if body[i] == '\\' && body[i+1] == '\\' {
			i++
			continue
		}
		if body[i] == '\\' && body[i+1] == 'u' && body[i+6] == '\\' && body[i+7] == 'u' {
			hi := 0
			ok := true
			for k := 2; k < 6; k++ {
				h := hexVal(body[i+k])
				if h < 0 {
					ok = false
				}
				hi = hi*16 + h
			}
			lo := 0
			for k := 8; k < 12; k++ {
				h := hexVal(body[i+k])
				if h < 0 {
					ok = false
				}
				lo = lo*16 + h
			}
			if ok && hi >= 0xD800 && hi <= 0xDFFF && !(hi <= 0xDBFF && lo >= 0xDC00 && lo <= 0xDFFF) {
				return true
			}
		}
	}
	return false
}

func hexVal(c byte) int {
	switch {
	case c >= '0' && c <= '9':
		return int(c - '0')
	case c >= 'a' && c <= 'f':
		return int(c-'a') + 10
	case c >= 'A' && c <= 'F':
		return int(c-'A') + 10
	}
	return -1
}

func refSurrogatesPaired(body string) bool {
	u := func(i int) int { // value of \uXXXX at i, or -1
		if i+6 > len(body) || body[i] != '\\' || body[i+1] != 'u' {
			return -1
		}
		v := 0
		for k := 2; k < 6; k++ {
			h := hexVal(body[i+k])
			if h < 0 {
				return -1
			}
			v = v*16 + h
		}
		return v
	}
	for i := 0; i < len(body); i++ {
		if body[i] != '\\' {
			continue
		}
		if i+1 < len(body) && body[i+1] != 'u' {
			i++
			continue
		}
		v := u(i)
		if v < 0 {
			return false
		}
		if v >= 0xDC00 && v <= 0xDFFF {
			return false // lone low surrogate
		}
		if v >= 0xD800 && v <= 0xDBFF {
			w := u(i + 6)
			if w < 0xDC00 || w > 0xDFFF {
				return false
			}
			i += 11
			continue
		}
		i += 5
	}
	return true
}

// refDecodeJSON: backticks are unescaped, the rest must be one JSON text.
func refDecodeJSON(body string) (any, bool) {
	text := strings.ReplaceAll(body, "\\`", "`")
	dec := json.NewDecoder(strings.NewReader(text))
	dec.UseNumber()
	var v any
	if err := dec.Decode(&v); err != nil {
		return nil, false
	}
	if dec.More() {
		return nil, false
	}
	var extra any
	if err := dec.Decode(&extra); err == nil {
		return nil, false
	}
	if strings.TrimSpace(text) == "" {
		return nil, false
	}
	// trailing garbage after the value
	rest := text[dec.InputOffset():]
	if strings.TrimSpace(rest) != "" {
		return nil, false
	}
	return v, true
}

// ---- AST --------------------------------------------------------------------------

const (
	rnField = iota
	rnIdentity
	rnRoot
	rnLiteral
	rnIndex
	rnSlice
	rnSub        // left . right   (right evaluated on left)
	rnIndexExpr  // left [index]   (same as sub, kept for projection building)
	rnProjection // list projection: left must be an array
	rnValueProjection
	rnFlatten
	rnFilterProjection
	rnPipe
	rnOr
	rnAnd
	rnNot
	rnCmp
	rnArith
	rnUnary
	rnMultiList
	rnMultiHash
	rnCall
	rnExpref
	rnLet
	rnVar
)

type rnode struct {
	kind     int
	str      string // field name, function name, variable name, operator
	val      any
	num      [3]int
	has      [3]bool
	kids     []*rnode
	keys     []string
	bindings []string
}

var rbp = map[int]int{
	rtPipe: 1, rtOr: 2, rtAnd: 3, rtEq: 5, rtGt: 5, rtLt: 5, rtGte: 5, rtLte: 5, rtNe: 5,
	rtPlus: 6, rtMinus: 6, rtMultiply: 7, rtDivide: 7, rtDiv: 7, rtModulo: 7, rtStar: 20,
	rtFlatten: 9, rtFilter: 21, rtDot: 40, rtNot: 45, rtLbrace: 50, rtLbracket: 55, rtLparen: 60,
}

const rbpProjectionStop = 10

// rbpRHS is the binding power with which every projection right-hand side is
// parsed: the property states that it extends over all following selectors
// until a pipe, a lower-precedence operator, a flatten or a closing bracket.
const rbpRHS = rbpProjectionStop - 1

type rparser struct {
	toks []rtoken
	pos  int
	ec   int
	// lazy token source (token harness): text of source token i, "" at the end
	src   func(i int) string
	nsrc  int
	ended bool
}

// need makes sure token index i exists (pulling from the lazy source).
func (p *rparser) need(i int) {
	for p.src != nil && !p.ended && len(p.toks) <= i {
		text := p.src(p.nsrc)
		p.nsrc++
		if text == "" {
			p.ended = true
			p.toks = append(p.toks, rtoken{typ: rtEOF})
			break
		}
		ts, ok := refLex(text)
		if !ok || len(ts) < 2 {
			p.ended = true
			p.toks = append(p.toks, rtoken{typ: -1})
			break
		}
		ts = ts[:len(ts)-1] // drop EOF
		ts[0].space = true
		p.toks = append(p.toks, ts...)
	}
}

func (p *rparser) cur() rtoken { return p.la(0) }
func (p *rparser) la(n int) rtoken {
	p.need(p.pos + n)
	if p.pos+n < len(p.toks) {
		return p.toks[p.pos+n]
	}
	return rtoken{typ: rtEOF}
}
func (p *rparser) advance() {
	p.need(p.pos + 1)
	if p.pos < len(p.toks)-1 {
		p.pos++
	}
}
func (p *rparser) fail(ec int) *rnode {
	if p.ec == ecNone {
		p.ec = ec
	}
	return &rnode{kind: rnIdentity}
}
func (p *rparser) match(t int) bool {
	if p.cur().typ != t {
		p.fail(ecSyntax)
		return false
	}
	p.advance()
	return true
}

// bp of the current token in led position; '*' is the multiplication operator
// there (binding power 7) unless it follows a dot (handled in led of dot).
func (p *rparser) curBP() int {
	t := p.cur().typ
	if t == rtStar {
		return 7
	}
	return rbp[t]
}

// refParse parses an expression; the returned class is ecNone on success.
func refParse(s string) (*rnode, int) {
	toks, ok := refLex(s)
	if !ok {
		return nil, ecSyntax
	}
	return refParseTokens(toks)
}

// refParseLazy parses a token sequence that is produced on demand.
func refParseLazy(src func(i int) string) (*rnode, int) {
	return refParseWith(&rparser{src: src})
}

func refParseTokens(toks []rtoken) (*rnode, int) {
	return refParseWith(&rparser{toks: toks})
}

func refParseWith(p *rparser) (*rnode, int) {
	n := p.expression(0)
	if p.ec == ecNone && p.cur().typ != rtEOF {
		p.fail(ecSyntax)
	}
	if p.ec != ecNone {
		return nil, p.ec
	}
	return n, ecNone
}

func (p *rparser) expression(bp int) *rnode {
	if p.ec != ecNone {
		return &rnode{kind: rnIdentity}
	}
	t := p.cur()
	p.advance()
	left := p.nud(t)
	for p.ec == ecNone && bp < p.curBP() {
		t = p.cur()
		p.advance()
		left = p.led(t, left)
	}
	return left
}

func (p *rparser) nud(t rtoken) *rnode {
	switch t.typ {
	case rtLiteral:
		if t.bad {
			return p.fail(ecSyntax)
		}
		return &rnode{kind: rnLiteral, val: t.val}
	case rtRaw:
		return &rnode{kind: rnLiteral, val: t.str}
	case rtUnquoted:
		if t.str == "let" && p.cur().typ == rtVariable {
			return p.parseLet()
		}
		if t.str == "let" || t.str == "in" {
			// contextual keywords used as plain identifiers: left open
			return p.fail(ecUnspecified)
		}
		return &rnode{kind: rnField, str: t.str}
	case rtQuoted:
		if t.open {
			return p.fail(ecUnspecified)
		}
		if t.bad {
			return p.fail(ecSyntax)
		}
		if p.cur().typ == rtLparen {
			return p.fail(ecSyntax) // quoted identifiers are not function names
		}
		return &rnode{kind: rnField, str: t.str}
	case rtVariable:
		return &rnode{kind: rnVar, str: t.str}
	case rtRoot:
		return &rnode{kind: rnRoot}
	case rtCurrent:
		return &rnode{kind: rnIdentity}
	case rtStar:
		left := &rnode{kind: rnIdentity}
		var right *rnode
		if p.cur().typ == rtRbracket {
			right = &rnode{kind: rnIdentity}
		} else {
			right = p.projectionRHS(rbpRHS)
		}
		return &rnode{kind: rnValueProjection, kids: []*rnode{left, right}}
	case rtFilter:
		return p.led(t, &rnode{kind: rnIdentity})
	case rtFlatten:
		return p.led(t, &rnode{kind: rnIdentity})
	case rtLbrace:
		return p.multiHash()
	case rtLparen:
		e := p.expression(0)
		p.match(rtRparen)
		return e
	case rtNot:
		e := p.expression(rbp[rtNot])
		return &rnode{kind: rnNot, kids: []*rnode{e}}
	case rtMinus, rtPlus:
		// a unary sign binds tighter than every binary operator (C10's wording)
		e := p.expression(rbp[rtMultiply])
		op := "-"
		if t.typ == rtPlus {
			op = "+"
		}
		return &rnode{kind: rnUnary, str: op, kids: []*rnode{e}}
	case rtLbracket:
		c := p.cur()
		if c.typ == rtNumber || c.typ == rtColon {
			right := p.indexExpr()
			return p.projectIfSlice(&rnode{kind: rnIdentity}, right)
		}
		if c.typ == rtStar && p.la(1).typ == rtRbracket {
			p.advance()
			p.advance()
			right := p.projectionRHS(rbpRHS)
			return &rnode{kind: rnProjection, kids: []*rnode{{kind: rnIdentity}, right}}
		}
		return p.multiList()
	}
	return p.fail(ecSyntax)
}

func (p *rparser) led(t rtoken, left *rnode) *rnode {
	switch t.typ {
	case rtDot:
		if p.cur().typ != rtStar {
			right := p.dotRHS(rbp[rtDot])
			return &rnode{kind: rnSub, kids: []*rnode{left, right}}
		}
		p.advance()
		right := p.projectionRHS(rbpRHS)
		return &rnode{kind: rnValueProjection, kids: []*rnode{left, right}}
	case rtPipe:
		right := p.expression(rbp[rtPipe])
		return &rnode{kind: rnPipe, kids: []*rnode{left, right}}
	case rtOr:
		right := p.expression(rbp[rtOr])
		return &rnode{kind: rnOr, kids: []*rnode{left, right}}
	case rtAnd:
		right := p.expression(rbp[rtAnd])
		return &rnode{kind: rnAnd, kids: []*rnode{left, right}}
	case rtEq, rtNe, rtLt, rtLte, rtGt, rtGte:
		right := p.expression(rbp[t.typ])
		return &rnode{kind: rnCmp, str: t.text, kids: []*rnode{left, right}}
	case rtPlus, rtMinus, rtMultiply, rtDivide, rtDiv, rtModulo, rtStar:
		bp := rbp[t.typ]
		op := t.text
		switch t.typ {
		case rtStar, rtMultiply:
			bp, op = 7, "*"
		case rtMinus:
			op = "-"
		case rtDivide:
			op = "/"
		}
		right := p.expression(bp)
		return &rnode{kind: rnArith, str: op, kids: []*rnode{left, right}}
	case rtLparen:
		if left.kind != rnField || len(left.kids) != 0 {
			return p.fail(ecSyntax)
		}
		var args []*rnode
		for p.ec == ecNone && p.cur().typ != rtRparen {
			if p.cur().typ == rtExpref {
				// expression-type = "&" expression : only as a function argument
				p.advance()
				args = append(args, &rnode{kind: rnExpref, kids: []*rnode{p.expression(0)}})
			} else {
				args = append(args, p.expression(0))
			}
			if p.cur().typ == rtComma {
				p.advance()
				if p.cur().typ == rtRparen {
					return p.fail(ecSyntax)
				}
			} else if p.cur().typ != rtRparen {
				return p.fail(ecSyntax)
			}
		}
		p.match(rtRparen)
		n := &rnode{kind: rnCall, str: left.str, kids: args}
		if p.ec == ecNone {
			if ec := refCheckCall(n); ec != ecNone {
				return p.fail(ec)
			}
		}
		return n
	case rtFilter:
		cond := p.expression(0)
		p.match(rtRbracket)
		var right *rnode
		if p.cur().typ == rtFlatten {
			right = &rnode{kind: rnIdentity}
		} else {
			right = p.projectionRHS(rbpRHS)
		}
		return &rnode{kind: rnFilterProjection, kids: []*rnode{left, right, cond}}
	case rtFlatten:
		l := &rnode{kind: rnFlatten, kids: []*rnode{left}}
		right := p.projectionRHS(rbpRHS)
		return &rnode{kind: rnProjection, kids: []*rnode{l, right}}
	case rtLbracket:
		c := p.cur()
		if c.typ == rtNumber || c.typ == rtColon {
			right := p.indexExpr()
			return p.projectIfSlice(left, right)
		}
		if !p.match(rtStar) || !p.match(rtRbracket) {
			return p.fail(ecSyntax)
		}
		right := p.projectionRHS(rbpRHS)
		return &rnode{kind: rnProjection, kids: []*rnode{left, right}}
	}
	return p.fail(ecSyntax)
}

func (p *rparser) projectIfSlice(left, right *rnode) *rnode {
	ie := &rnode{kind: rnIndexExpr, kids: []*rnode{left, right}}
	if right.kind == rnSlice {
		rhs := p.projectionRHS(rbpRHS)
		return &rnode{kind: rnProjection, str: "slice", kids: []*rnode{ie, rhs}}
	}
	return ie
}

func (p *rparser) indexExpr() *rnode {
	// after '[' : number ']' | slice
	if p.cur().typ == rtNumber && p.la(1).typ == rtRbracket {
		t := p.cur()
		if t.big {
			return p.fail(ecSyntax)
		}
		p.advance()
		p.advance()
		return &rnode{kind: rnIndex, num: [3]int{t.num}}
	}
	n := &rnode{kind: rnSlice}
	idx := 0
	for p.cur().typ != rtRbracket && idx < 3 {
		t := p.cur()
		switch t.typ {
		case rtColon:
			idx++
			if idx > 2 {
				return p.fail(ecSyntax)
			}
			p.advance()
		case rtNumber:
			if t.big {
				return p.fail(ecSyntax)
			}
			if n.has[idx] {
				return p.fail(ecSyntax)
			}
			n.num[idx], n.has[idx] = t.num, true
			p.advance()
			if p.cur().typ != rtColon && p.cur().typ != rtRbracket {
				return p.fail(ecSyntax)
			}
		default:
			return p.fail(ecSyntax)
		}
	}
	if !p.match(rtRbracket) {
		return p.fail(ecSyntax)
	}
	if idx == 0 {
		return p.fail(ecSyntax)
	}
	if n.has[2] && n.num[2] == 0 {
		return p.fail(ecValue)
	}
	return n
}

func (p *rparser) projectionRHS(bp int) *rnode {
	c := p.cur().typ
	if p.curBP() < rbpProjectionStop {
		// note: '*' in led position is multiplication (bp 7 < 10): the projection stops
		return &rnode{kind: rnIdentity}
	}
	switch c {
	case rtLbracket, rtFilter:
		return p.expression(bp)
	case rtDot:
		p.advance()
		return p.dotRHS(bp)
	}
	return p.fail(ecSyntax)
}

func (p *rparser) dotRHS(bp int) *rnode {
	switch p.cur().typ {
	case rtQuoted, rtUnquoted, rtStar:
		return p.expression(bp)
	case rtLbracket:
		p.advance()
		return p.continueLed(p.multiList(), bp)
	case rtLbrace:
		p.advance()
		return p.continueLed(p.multiHash(), bp)
	}
	return p.fail(ecSyntax)
}

// continueLed: a multi-select behind a dot is followed by further selectors
// like any other right-hand side (inside a projection they belong to the
// projection: "extends over following selectors until a pipe, a
// lower-precedence operator or a closing bracket").
func (p *rparser) continueLed(left *rnode, bp int) *rnode {
	for p.ec == ecNone && bp < p.curBP() {
		t := p.cur()
		p.advance()
		left = p.led(t, left)
	}
	return left
}

func (p *rparser) multiList() *rnode {
	n := &rnode{kind: rnMultiList}
	for p.ec == ecNone {
		n.kids = append(n.kids, p.expression(0))
		if p.cur().typ == rtRbracket {
			break
		}
		if !p.match(rtComma) {
			break
		}
	}
	p.match(rtRbracket)
	return n
}

func (p *rparser) multiHash() *rnode {
	n := &rnode{kind: rnMultiHash}
	for p.ec == ecNone {
		k := p.cur()
		if k.typ != rtQuoted && k.typ != rtUnquoted {
			return p.fail(ecSyntax)
		}
		if k.bad {
			return p.fail(ecSyntax)
		}
		p.advance()
		if !p.match(rtColon) {
			break
		}
		n.keys = append(n.keys, k.str)
		n.kids = append(n.kids, p.expression(0))
		if p.cur().typ == rtComma {
			p.advance()
			continue
		}
		break
	}
	p.match(rtRbrace)
	return n
}

func (p *rparser) parseLet() *rnode {
	n := &rnode{kind: rnLet}
	for p.ec == ecNone {
		v := p.cur()
		if v.typ != rtVariable {
			return p.fail(ecSyntax)
		}
		p.advance()
		if !p.match(rtAssign) {
			break
		}
		n.bindings = append(n.bindings, v.str)
		n.kids = append(n.kids, p.expression(0))
		if p.cur().typ == rtComma {
			p.advance()
			continue
		}
		break
	}
	if p.ec == ecNone {
		if p.cur().typ != rtUnquoted || p.cur().str != "in" {
			return p.fail(ecSyntax)
		}
		p.advance()
		n.kids = append(n.kids, p.expression(0))
	}
	return n
}
