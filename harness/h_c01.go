package jmespath

import (
	"encoding/json"
	"strconv"
)

// C01: core queries return the value the specification defines.
// Differential against refjp over expression templates built from a step
// alphabet, for every document within the bounds (lazy documents: only what
// either side inspects is decided, and every answer is explored).

var c01Heads = []string{"a", "@", "$", "*", "[*]", "[]", "[?a]", "[a]", "[a, b]", "{x: a}", "{x: a, y: b}", "`[1, null, [2]]`", "a.b", "[0]", "[1:]"}

var c01Steps = []string{".a", ".b", "[0]", "[-1]", "[*]", ".*", "[]", "[?a]", "[?a == b]", "[1:]", "[::2]", ".[a, b]", ".[a]", ".{x: a}", ".{x: a, y: b}", " | a", " | [0]", " | [*]", " | [a]", ".a[*]"}

var c01Bool = []string{
	"a && b", "a || b", "!a", "a == b", "a != b", "a < b", "a <= b", "a > b", "a >= b",
	"a[?b > `1`]", "a[?b == `1`].b", "a[?!b]", "a[?b && a]", "(a || b).a", "a[*].b || b", "!a[0]",
	"a | b | a", "(a)", "(a.b)[0]", "(a[*].b)[0]", "a[*].b | [0]", "a[*].(b)", "[a, b][0]", "{x: a}.x", "[a][0]",
	"`null` | [@]", "`null` | {x: @}", "a.{x: b}", "a.[b]", "`false`", "`0`", "'a' == a", "a == `[1]`", "a[0][0]", "a[0].b[0]", "a.b.a.b",
	"(a[*].b).a", "(a[?a].b).a", "(a[].b).a", "(a[1:].b).a", "(a.*.b).a", "(a[*].b).a[0]", "(a[*].b) | a", "(a[*].b)[0].a",
	"a.*.b.*", "a.*.a.*.b", "a.*.b[0].*", "*.a.*", "a[*].a.*.b", "a[?a].a.*", "a[].a.*.b", "a.*.*.a", "a[*].a[*].b[0]", "a[?b].a[?a].b", "a[1:].a.b[0]", "a.*.a[?b].a", "[*].a.b.*",
	// right-hand sides of a pipe / dot that are not null on a null current node
	"a | b || `1`", "a | (b || 'x')", "a | !b", "a | b == `null`", "a | type(@)", "a | `1`", "a | not_null(b, `1`)", "a | [b || `1`]", "a.not_null(b, 'd')", "a | b && `1` || `2`", "a | {x: b || `0`}", "a[0] | b || `1`", "a.b | a || 'x'",
	"a[*][*]", "*[*]", "a[][*]", "a[*].b.*", "a.*.b", "a[*].*", "a[].b[]", "a[*].b[]", "a[?a][?b]", "a[?a].b[0]", "a[1:].b[0]", "a[:1][0]", "a[:1].b.a", "a[*][0]", "a[*][0][0]", "*.a[0]", "*.*", "*.a.b",
}

func c01Spec() {
	vrtSpec(2, 2, 1, "a,b", smASCII, nfInt, 0)
	vrtNumRange(0, 2)
	if vrtTier() == 0 {
		vrtNested(1) // quick: arrays below the root have at most one element
	}
}

// c01Unordered: does the template enumerate object members (result order free)?
func c01Unordered(expr string) bool {
	for i := 0; i < len(expr); i++ {
		if expr[i] == '*' && (i+1 >= len(expr) || expr[i+1] != ']') {
			return true
		}
	}
	return false
}

// c01Depth: documents are only as deep as the template can look.
func c01Depth(expr string) int {
	d := 1
	for i := 0; i < len(expr); i++ {
		if expr[i] == '.' || expr[i] == '[' || expr[i] == '*' {
			d++
		}
	}
	if d > 3 {
		d = 3
	}
	return d
}

// diffSearch compares Search with the reference on one (expression, document).
func diffSearch(expr string, doc any, unordered bool) {
	got, err := Search(expr, doc)
	want, ec, env := refSearchEnv(expr, doc)
	if ec == ecUnspecified {
		vrtReach("unspecified")
		return
	}
	vrtKnown("C01-F2", env.nullMS)
	if ec != ecNone {
		vrtAssert(err != nil, "specification requires an error: "+ecNames[ec])
		if err != nil {
			vrtAssert(ecOfError(err) == ec, "error category differs from the specification: want "+ecNames[ec])
			vrtAssert(got == nil, "failed call returns nil")
		}
		vrtReach("error")
		return
	}
	vrtAssert(err == nil, "unexpected error")
	if !vrtSymbolic() {
		vrtNote(vrtDescribe(expr, got, err, want))
	}
	if err != nil {
		return
	}
	if unordered {
		vrtAssert(refEqualMS(got, want), "value differs from the specification (up to member order)")
	} else {
		vrtAssert(refEqual(got, want), "value differs from the specification")
	}
	vrtReach("value")
}

// refEqualMS: like refEqual but arrays are compared as multisets.
func refEqualMS(x, y any) bool {
	if vrtSameObject(x, y) {
		return true
	}
	a, ok := x.([]any)
	if !ok {
		if m, ok := x.(map[string]any); ok {
			n, ok := y.(map[string]any)
			if !ok || len(m) != len(n) {
				return false
			}
			for k, v := range m {
				w, ok := n[k]
				if !ok || !refEqualMS(v, w) {
					return false
				}
			}
			return true
		}
		return refEqual(x, y)
	}
	b, ok := y.([]any)
	if !ok || len(a) != len(b) {
		return false
	}
	used := make([]bool, len(b))
	for _, v := range a {
		found := false
		for j, w := range b {
			if !used[j] && refEqualMS(v, w) {
				used[j] = true
				found = true
				break
			}
		}
		if !found {
			return false
		}
	}
	return true
}

// H_C01_chain1: head followed by at most one step.
func H_C01_chain1() {
	c01Spec()
	h := vrtChoose("head", len(c01Heads))
	s := vrtChoose("step", len(c01Steps)+1)
	expr := c01Heads[h]
	if s > 0 {
		expr += c01Steps[s-1]
	}
	vrtNote("template:" + expr)
	doc := vrtDoc("d", c01Depth(expr), uJSON, uJSON)
	diffSearch(expr, doc, c01Unordered(expr))
}

// H_C01_chain2: head followed by two steps (thorough: all pairs; quick: the
// pairs whose first step is a projection or a selector that keeps structure).
func H_C01_chain2() {
	c01Spec()
	heads := []int{0, 1, 3, 4, 5, 6, 14}
	h := heads[vrtChoose("head", len(heads))]
	s1 := vrtChoose("step1", len(c01Steps))
	s2 := vrtChoose("step2", len(c01Steps))
	if vrtTier() == 0 {
		// quick: first step must be one of the projection-forming steps
		ok := s1 == 4 || s1 == 5 || s1 == 6 || s1 == 7 || s1 == 9 || s1 == 0
		vrtAssume(ok)
	}
	expr := c01Heads[h] + c01Steps[s1] + c01Steps[s2]
	vrtNote("template:" + expr)
	doc := vrtDoc("d", c01Depth(expr), uJSON, uJSON)
	diffSearch(expr, doc, c01Unordered(expr))
}

// H_C01_rhs: continuation of a projection's right-hand side behind a first
// element the parser's own right-hand-side routine builds itself (multi-select
// hash, multi-select list, .[*]): every kind of selector that routine's
// continuation loop handles, then optionally one more step.
var c01RhsHeads = []string{"[*]", "*", "[?a]", "a[*]", "[1:]", "[]"}
var c01RhsFirst = []string{".{x: a}", ".[a, b]", ".[*]", ".{x: a, y: b}"}
var c01RhsCont = []string{".*", ".x", ".a", "[0]", "[*]", "[?a]", "[?x]", "[]", "[1:]", ".[x]", ".{y: x}", ".[*]", " | [0]", "[-1]"}
var c01RhsLast = []string{"", ".a", "[0]", ".*", ".x"}

func H_C01_rhs() {
	c01Spec()
	nh, nf, nl := len(c01RhsHeads), len(c01RhsFirst), len(c01RhsLast)
	if vrtTier() == 0 {
		nh, nf, nl = 2, 2, 2
	}
	expr := c01RhsHeads[vrtChoose("head", nh)] + c01RhsFirst[vrtChoose("first", nf)] + c01RhsCont[vrtChoose("cont", len(c01RhsCont))] + c01RhsLast[vrtChoose("last", nl)]
	vrtNote("template:" + expr)
	var doc any
	if vrtTier() == 0 {
		// quick: container roots; below them null, boolean (both truth values), array, object
		doc = vrtDoc("d", 3, uArr|uObj, uNil|uBool|uArr|uObj)
	} else {
		doc = vrtDoc("d", 3, uJSON, uJSON)
	}
	diffSearch(expr, doc, c01Unordered(expr))
}

// H_C01_forms: boolean, comparison, parenthesis and extent forms.
func H_C01_forms() {
	c01Spec()
	k := vrtChoose("expr", len(c01Bool))
	expr := c01Bool[k]
	vrtNote("template:" + expr)
	doc := vrtDoc("d", c01Depth(expr), uJSON, uJSON)
	diffSearch(expr, doc, c01Unordered(expr))
}

// H_C01_index: index selectors with an arbitrary (symbolic) 64-bit index
// literal in the positions the parser treats separately: without a left-hand
// side, behind a field, behind the current node, behind a pipe and as a
// projection's right-hand side.
func H_C01_index() {
	i := vrtInt("i")
	n := vrtChoose("n", 3)
	arr := make([]any, n)
	for j := range arr {
		arr[j] = int64(j + 10)
	}
	var elem any
	if i >= 0 && i < n {
		elem = arr[i]
	} else if i < 0 && i >= -n {
		elem = arr[i+n]
	}
	var expr string
	var doc, want any
	switch vrtChoose("form", 6) {
	case 0:
		expr, doc, want = vrtMagic("[%d]", i), arr, elem
	case 1:
		expr, doc, want = vrtMagic("a[%d]", i), map[string]any{"a": arr}, elem
	case 2:
		expr, doc = vrtMagic("[*][%d]", i), []any{arr, nil, arr}
		if elem != nil {
			want = []any{elem, elem}
		} else {
			want = []any{}
		}
	case 3:
		expr, doc, want = vrtMagic("@[%d]", i), arr, elem
	case 4:
		expr, doc, want = vrtMagic("a | [%d]", i), map[string]any{"a": arr}, elem
	case 5:
		expr, doc = vrtMagic("*[%d]", i), map[string]any{"k": arr}
		if elem != nil {
			want = []any{elem}
		} else {
			want = []any{}
		}
	}
	vrtNote("template:" + expr)
	got, err := Search(expr, doc)
	vrtAssert(err == nil, "index expression evaluates")
	if err == nil {
		vrtAssert(refEqual(got, want), "index selects the element the specification names (null when out of range)")
	}
}

// H_C01_wide: arrays long enough to cross the size thresholds implementations
// switch behaviour at (inline buffers of 8 / 16 / 32 / 64 elements, insertion
// sort below 13 elements), and constructs evaluated inside their own kind
// (a filter inside a filter's predicate, a projection inside a projection's
// key), which is where scratch storage kept between calls gets overwritten.
// The array has n concrete members {x, y, s} and two lazily typed ones (null,
// or an object with symbolic numbers x and y[0]); the reference decides the value.
var c01WideExprs = []string{
	"a[*].x", "a[?x].x", "a[?x > `1`].s", "a[?y[?@ > `1`]].s", "a[?y[?@ > `1`]] | [*].s", "a[?y[?@ > `1`]][?x > `0`].s", "a[*].y[?@ > `0`]",
	"a[].y[]", "a[*].y[*]", "map(&y[?@ > `1`], a)", "a[?length(y[?@ > `0`]) > `1`].x", "a[::2].x", "a[::-1].x", "a[1:-1].y[0]",
	"reverse(a)[*].x", "a[*].x | sort(@)", "sort_by(a, &x)[*].s", "sort_by(a, &s)[*].x", "group_by(a, &s).s1[*].x", "a[*].[x, s]", "a[*].{k: x}.k",
	"length(a[?x == `0`])", "join(',', a[*].s)", "a[*].s | sort(@)", "min(a[*].x)", "sum(a[*].x)", "zip(a[*].x, a[*].s)[-1]", "a[*].y | [] | []",
	"a[*]", "a[?@]", "a[]", "a[1:]", "a[*].y[?@ > `0`] | [?@]", "a[?x == `1`] | [?y[?@ > `1`]].s", "map(&map(&@, y), a)[-2]", "a[?x].y[?@].[@]",
	"sort_by(a, &length(y[?@ > `0`]))[*].s", "a[*].[y[?@ > `1`], x][?@]", "[a[?x > `1`].s, a[?x < `1`].s, a[?x == `1`].s]", "a[*].x[]", "a[*].s | [?@ == 's0'] | length(@)",
}

func c01WideElem(name string) any {
	if vrtBool(name + "null") {
		return nil
	}
	return map[string]any{"x": vrtJNum(name+"x", nfInt), "y": []any{vrtJNum(name+"y", nfInt), json.Number("2")}, "s": "s1"}
}

func H_C01_wide() {
	vrtSpec(2, 3, 1, "x,y,s", smASCII, nfInt, 0)
	vrtNumRange(0, 3)
	vrtBudget(4000000)
	vrtMaxAlloc(600)
	sizes := []int{3, 17, 65}
	if vrtTier() == 1 {
		sizes = []int{3, 9, 13, 17, 33, 65, 129}
	}
	n := sizes[vrtChoose("n", len(sizes))]
	k := vrtChoose("expr", len(c01WideExprs))
	expr := c01WideExprs[k]
	vrtNote("template:" + expr)
	arr := make([]any, n)
	for i := range arr {
		arr[i] = map[string]any{"x": json.Number(strconv.Itoa(i % 4)), "y": []any{json.Number(strconv.Itoa(i % 3)), json.Number("2")}, "s": "s" + strconv.Itoa(i%3)}
	}
	arr[1] = c01WideElem("p")
	arr[n-2] = c01WideElem("q")
	diffSearch(expr, map[string]any{"a": arr}, false)
}
