package jmespath

import (
	"math"
	"strings"
)

// C15: evaluation is deterministic apart from object member order.
// Self-composition: the same expression on the same document twice; every
// iteration over a map inside the library forks over all orders independently
// in the two runs (sfOrderForks), and each run parses the expression afresh.

var c15Strict = []string{
	"{x: a, y: b, z: c}", "{x: a, x: b}", "let $p = a, $q = b in [$p, $q]", "let $p = a, $p = b in $p", "let $p = a, $q = $p in [$p, $q]", "let $p = a, $q = b, $r = $q in $r", "[let $p = a, $q = $p in $q, a]",
	"merge(a, b)", "merge(a, b, a)", "[length(a), merge(a, b)]", "[merge(a, b), a]", "{n: length(a), m: merge(a, b)}", "[sort(c[*].k), c[*].k]", "{s: sort_by(c, &k), c: c}", "[reverse(c), c]", "group_by(c, &k)", "from_items(c)", "a == b", "length(a)", "sort(keys(a))",
	"{x: a.x, y: a.y}", "a.x", "to_array(a)[0] == a", "contains([a], b)", "[a, b][?x]", "a && b", "type(a)",
	"{p: {q: a, r: b}, s: c}", "let $o = {x: a, y: b} in [$o.x, $o.y]", "zip(c, c)", "max_by(c, &k)", "sort_by(c, &k)",
	"{x: abs(a), y: abs(b)}", "{x: length(a), y: length(b)}", "let $p = length(a), $q = length(b) in $p",
}

var c15Unordered = []string{"*", "a.*", "keys(a)", "values(a)", "items(a)", "*.x", "a.*.y", "values(merge(a, b))", "keys(merge(a, b))", "[a.*, b.*]"}

func c15Doc() any {
	o := 2
	if vrtTier() == 1 {
		o = 3
	}
	vrtSpec(2, o, 1, "x,y,k", smASCII, nfInt, sfOrderForks)
	vrtNumRange(0, 2)
	vrtNested(tq(1, 2))
	return map[string]any{
		"a": vrtDoc("a", 1, uNil|uObj|uJNum|uStr, uScalar),
		"b": vrtDoc("b", 1, uNil|uObj|uJNum, uScalar),
		"c": vrtDoc("c", 2, uArr, uObj|uArr|uStr),
	}
}

func c15Twice(expr string, doc any, unordered bool) {
	r1, err1 := Search(expr, doc)
	r2, err2 := Search(expr, doc)
	vrtAssert((err1 == nil) == (err2 == nil), "same expression and document: one evaluation fails, the other does not")
	if err1 != nil || err2 != nil {
		// which of several faults is reported may vary; a single fault may not
		return
	}
	if unordered {
		vrtAssert(refEqualMS(r1, r2), "results differ beyond the order of enumerated members")
	} else {
		vrtAssert(refEqual(r1, r2), "results of two evaluations differ")
	}
}

// H_C15_strict: expressions that do not enumerate object members.
func H_C15_strict() {
	expr := c15Strict[vrtChoose("expr", len(c15Strict))]
	vrtNote("template:" + expr)
	c15Twice(expr, c15Doc(), false)
}

// H_C15_unordered: enumerations are equal up to permutation.
func H_C15_unordered() {
	expr := c15Unordered[vrtChoose("expr", len(c15Unordered))]
	vrtNote("template:" + expr)
	c15Twice(expr, c15Doc(), true)
}

// H_C15_floats: documents built by the caller with binary floating point
// members (values whose float sums depend on the order of addition, NaN and
// infinite members that encoding/json refuses), evaluated twice with
// independent member orders: scalar results and renderings are equal.
var c15FloatExprs = []string{
	"sum(values(@))", "sum(*)", "avg(values(@))", "max(values(@))", "min(*)", "sort(values(@))", "sort(*)[0]", "length(keys(@))",
	"sum(*) == sum(*)", "to_string(@)", "to_string(values(@) | sort(@))", "to_string(sum(*))", "values(@) | sum(@) | to_string(@)", "sum([p, q, r])", "to_string([p, q])",
	"to_string({a: p, b: q, c: r})", "to_string(q)", "type(p)", "abs(sum(*))", "sum(*) > `0`", "sum(values(@)[?@ > `0`])", "ceil(avg(*))",
}

func c15FloatDoc(k int) map[string]any {
	switch k {
	case 0:
		return map[string]any{"p": 1e16, "q": 1.0, "r": -1e16}
	case 1:
		return map[string]any{"p": 0.1, "q": 0.2, "r": 0.3}
	case 2:
		return map[string]any{"p": math.NaN(), "q": 1.0, "r": 2.5}
	case 3:
		return map[string]any{"p": math.Inf(1), "q": map[string]any{"p": math.NaN(), "q": 2.0, "r": 3.0}, "r": 1.0}
	default:
		return map[string]any{"p": float32(16777216), "q": float32(1), "r": float32(-16777216)}
	}
}

func H_C15_floats() {
	vrtSpec(2, 3, 1, "p,q,r", smASCII, nfInt, sfOrderForks)
	expr := c15FloatExprs[vrtChoose("expr", len(c15FloatExprs))]
	vrtNote("template:" + expr)
	dk := vrtChoose("doc", 5)
	doc := c15FloatDoc(dk)
	if (dk == 2 || dk == 3) && (strings.Contains(expr, "sort") || strings.Contains(expr, "max") || strings.Contains(expr, "min")) {
		// NaN is unordered: what the ordering functions do with it is outside the property
		return
	}
	r1, err1 := Search(expr, doc)
	r2, err2 := Search(expr, doc)
	vrtAssert((err1 == nil) == (err2 == nil), "same expression and document: one evaluation fails, the other does not")
	if err1 != nil || err2 != nil {
		return
	}
	if s1, ok := r1.(string); ok {
		s2, _ := r2.(string)
		vrtAssert(s1 == s2, "two renderings of the same document differ")
		return
	}
	vrtAssert(refEqual(r1, r2), "results of two evaluations differ")
}
