package jmespath

import (
	"strings"
	"unicode/utf8"

	"github.com/woodsbury/decimal128"
)

type refSig struct {
	min, max int // max < 0: variadic
	expref   int // index of the expression-reference argument, -1 if none
}

var refSigs = map[string]refSig{
	"abs": {1, 1, -1}, "avg": {1, 1, -1}, "ceil": {1, 1, -1}, "contains": {2, 2, -1}, "ends_with": {2, 2, -1},
	"find_first": {2, 4, -1}, "find_last": {2, 4, -1}, "floor": {1, 1, -1}, "from_items": {1, 1, -1},
	"group_by": {2, 2, 1}, "items": {1, 1, -1}, "join": {2, 2, -1}, "keys": {1, 1, -1}, "length": {1, 1, -1},
	"lower": {1, 1, -1}, "map": {2, 2, 0}, "max": {1, 1, -1}, "max_by": {2, 2, 1}, "merge": {1, -1, -1},
	"min": {1, 1, -1}, "min_by": {2, 2, 1}, "not_null": {1, -1, -1}, "pad_left": {2, 3, -1}, "pad_right": {2, 3, -1},
	"replace": {3, 4, -1}, "reverse": {1, 1, -1}, "sort": {1, 1, -1}, "sort_by": {2, 2, 1}, "split": {2, 3, -1},
	"starts_with": {2, 2, -1}, "sum": {1, 1, -1}, "to_array": {1, 1, -1}, "to_number": {1, 1, -1},
	"to_string": {1, 1, -1}, "trim": {1, 2, -1}, "trim_left": {1, 2, -1}, "trim_right": {1, 2, -1},
	"type": {1, 1, -1}, "upper": {1, 1, -1}, "values": {1, 1, -1}, "zip": {1, -1, -1},
}

// refCheckCall decides the static faults of a call: unknown function, arity,
// and expression-reference position (invalid-type).
func refCheckCall(n *rnode) int {
	arity, refs := refCallFaults(n)
	if arity != ecNone {
		return arity
	}
	return refs
}

// refCallFaults reports the two kinds of static call faults separately
// (unknown function / arity, and expression-reference position).
func refCallFaults(n *rnode) (int, int) {
	sig, ok := refSigs[n.str]
	if !ok {
		return ecUnknownFn, ecNone
	}
	arity, refs := ecNone, ecNone
	if len(n.kids) < sig.min || (sig.max >= 0 && len(n.kids) > sig.max) {
		arity = ecArity
	}
	for i, k := range n.kids {
		isRef := k.kind == rnExpref
		if isRef != (i == sig.expref) {
			refs = ecType
		}
	}
	return arity, refs
}

// refInt: a number with an integral value in any carrier or spelling.
// Returns (value, isNumber, isIntegral, fits).
func refInt(v any) (int, bool, bool) {
	d, ok := refDec(v)
	if !ok {
		return 0, false, false
	}
	if d.IsNaN() || d.IsInf(0) {
		return 0, true, false
	}
	if !decimal128.Floor(d).Equal(d) {
		return 0, true, false
	}
	i, fits := d.Int64()
	if !fits {
		return 0, true, false
	}
	return int(i), true, true
}

func refRunes(s string) []string { return cpSplit(s) }

func refJoinCPs(cps []string) string {
	s := ""
	for _, c := range cps {
		s += c
	}
	return s
}

func (e *refEnv) applyRef(arg any, v any) (any, int) {
	r := arg.(*refExpref)
	return e.eval(r.node, v, r.scope)
}

func (e *refEnv) call(n *rnode, cur any, sc *refScope) (any, int) {
	args := make([]any, len(n.kids))
	for i, k := range n.kids {
		v, ec := e.eval(k, cur, sc)
		if ec != ecNone {
			return nil, ec
		}
		args[i] = v
	}
	str := func(i int) (string, bool) { s, ok := args[i].(string); return s, ok }
	arr := func(i int) ([]any, bool) { a, ok := args[i].([]any); return a, ok }
	obj := func(i int) (map[string]any, bool) { m, ok := args[i].(map[string]any); return m, ok }
	switch n.str {
	case "abs", "ceil", "floor":
		d, ok := refDec(args[0])
		if !ok {
			return nil, ecType
		}
		switch n.str {
		case "abs":
			return decimal128.Abs(d), ecNone
		case "ceil":
			return decimal128.Ceil(d), ecNone
		}
		return decimal128.Floor(d), ecNone
	case "avg", "sum":
		a, ok := arr(0)
		if !ok {
			return nil, ecType
		}
		var total decimal128.Decimal
		for _, v := range a {
			d, ok := refDec(v)
			if !ok {
				return nil, ecType
			}
			total = total.Add(d)
		}
		if total.IsNaN() || total.IsInf(0) {
			return nil, ecNaN // overflow past the decimal128 range
		}
		if n.str == "sum" {
			return total, ecNone
		}
		if len(a) == 0 {
			return nil, ecNone
		}
		return total.Quo(decimal128.FromInt64(int64(len(a)))), ecNone
	case "contains":
		if s, ok := str(0); ok {
			sub, ok := str(1)
			if !ok {
				return nil, ecUnspecified
			}
			return strings.Contains(s, sub), ecNone
		}
		if a, ok := arr(0); ok {
			for _, v := range a {
				if refEqual(v, args[1]) {
					return true, ecNone
				}
			}
			return false, ecNone
		}
		return nil, ecType
	case "starts_with", "ends_with":
		s, ok1 := str(0)
		p, ok2 := str(1)
		if !ok1 || !ok2 {
			return nil, ecType
		}
		if n.str == "starts_with" {
			return strings.HasPrefix(s, p), ecNone
		}
		return strings.HasSuffix(s, p), ecNone
	case "find_first", "find_last":
		return refFind(n.str == "find_last", args)
	case "from_items":
		a, ok := arr(0)
		if !ok {
			return nil, ecType
		}
		out := map[string]any{}
		for _, it := range a {
			pair, ok := it.([]any)
			if !ok {
				return nil, ecType
			}
			if len(pair) != 2 {
				return nil, ecValue
			}
			k, ok := pair[0].(string)
			if !ok {
				return nil, ecValue
			}
			out[k] = pair[1]
		}
		return out, ecNone
	case "items":
		m, ok := obj(0)
		if !ok {
			return nil, ecType
		}
		out := make([]any, 0, len(m))
		for k, v := range m {
			out = append(out, []any{k, v})
		}
		return out, ecNone
	case "keys":
		m, ok := obj(0)
		if !ok {
			return nil, ecType
		}
		out := make([]any, 0, len(m))
		for k := range m {
			out = append(out, k)
		}
		return out, ecNone
	case "values":
		m, ok := obj(0)
		if !ok {
			return nil, ecType
		}
		out := make([]any, 0, len(m))
		for _, v := range m {
			out = append(out, v)
		}
		return out, ecNone
	case "group_by":
		a, ok := arr(0)
		if !ok {
			return nil, ecType
		}
		if len(a) == 0 {
			return nil, ecUnspecified
		}
		out := map[string]any{}
		for _, v := range a {
			k, ec := e.applyRef(args[1], v)
			if ec != ecNone {
				return nil, ec
			}
			ks, ok := k.(string)
			if !ok {
				if k == nil {
					return nil, ecUnspecified
				}
				return nil, ecType
			}
			g, _ := out[ks].([]any)
			out[ks] = append(g, v)
		}
		return out, ecNone
	case "join":
		sep, ok1 := str(0)
		a, ok2 := arr(1)
		if !ok1 || !ok2 {
			return nil, ecType
		}
		parts := make([]string, 0, len(a))
		for _, v := range a {
			s, ok := v.(string)
			if !ok {
				return nil, ecType
			}
			parts = append(parts, s)
		}
		return strings.Join(parts, sep), ecNone
	case "length":
		switch x := args[0].(type) {
		case string:
			return int64(utf8.RuneCountInString(x)), ecNone
		case []any:
			return int64(len(x)), ecNone
		case map[string]any:
			return int64(len(x)), ecNone
		}
		return nil, ecType
	case "lower", "upper":
		s, ok := str(0)
		if !ok {
			return nil, ecType
		}
		for i := 0; i < len(s); i++ {
			if s[i] >= 0x80 {
				return nil, ecUnspecified
			}
		}
		if n.str == "lower" {
			return strings.ToLower(s), ecNone
		}
		return strings.ToUpper(s), ecNone
	case "map":
		a, ok := arr(1)
		if !ok {
			return nil, ecType
		}
		out := make([]any, 0, len(a))
		for _, v := range a {
			r, ec := e.applyRef(args[0], v)
			if ec != ecNone {
				return nil, ec
			}
			out = append(out, r)
		}
		return out, ecNone
	case "max", "min", "sort":
		a, ok := arr(0)
		if !ok {
			return nil, ecType
		}
		return refOrder(n.str, a, a)
	case "max_by", "min_by", "sort_by":
		a, ok := arr(0)
		if !ok {
			return nil, ecType
		}
		keys := make([]any, len(a))
		for i, v := range a {
			k, ec := e.applyRef(args[1], v)
			if ec != ecNone {
				return nil, ec
			}
			keys[i] = k
		}
		return refOrder(n.str, a, keys)
	case "merge":
		out := map[string]any{}
		for i := range args {
			m, ok := obj(i)
			if !ok {
				return nil, ecType
			}
			for k, v := range m {
				out[k] = v
			}
		}
		return out, ecNone
	case "not_null":
		for _, v := range args {
			if v != nil {
				return v, ecNone
			}
		}
		return nil, ecNone
	case "pad_left", "pad_right":
		s, ok := str(0)
		if !ok {
			return nil, ecType
		}
		pad := " "
		if len(args) == 3 {
			p, ok := str(2)
			if !ok {
				return nil, ecType
			}
			pad = p
		}
		w, isNum, isInt := refInt(args[1])
		if !isNum {
			return nil, ecType
		}
		if !isInt || w < 0 {
			return nil, ecValue
		}
		if utf8.RuneCountInString(pad) != 1 {
			return nil, ecValue
		}
		l := utf8.RuneCountInString(s)
		if w-l > 160 {
			return nil, ecUnspecified // result larger than the harness bound
		}
		for i := l; i < w; i++ {
			if n.str == "pad_left" {
				s = pad + s
			} else {
				s = s + pad
			}
		}
		return s, ecNone
	case "replace":
		s, ok1 := str(0)
		old, ok2 := str(1)
		nw, ok3 := str(2)
		if !ok1 || !ok2 || !ok3 {
			return nil, ecType
		}
		cnt := -1
		if len(args) == 4 {
			c, isNum, isInt := refInt(args[3])
			if !isNum {
				return nil, ecType
			}
			if !isInt || c < 0 {
				return nil, ecValue
			}
			cnt = c
		}
		if old == "" {
			return nil, ecUnspecified
		}
		return strings.Replace(s, old, nw, cnt), ecNone
	case "reverse":
		switch x := args[0].(type) {
		case string:
			cps := refRunes(x)
			out := ""
			for i := len(cps) - 1; i >= 0; i-- {
				out += cps[i]
			}
			return out, ecNone
		case []any:
			out := make([]any, 0, len(x))
			for i := len(x) - 1; i >= 0; i-- {
				out = append(out, x[i])
			}
			return out, ecNone
		}
		return nil, ecType
	case "split":
		s, ok1 := str(0)
		sep, ok2 := str(1)
		if !ok1 || !ok2 {
			return nil, ecType
		}
		cnt := -1
		if len(args) == 3 {
			c, isNum, isInt := refInt(args[2])
			if !isNum {
				return nil, ecType
			}
			if !isInt || c < 0 {
				return nil, ecValue
			}
			cnt = c
		}
		if s == "" {
			if sep == "" {
				if cnt == 0 {
					return nil, ecUnspecified
				}
				return []any{}, ecNone
			}
			return nil, ecUnspecified
		}
		var parts []string
		if cnt < 0 {
			if sep == "" {
				parts = refRunes(s)
			} else {
				parts = strings.Split(s, sep)
			}
		} else if sep == "" {
			cps := refRunes(s)
			for len(parts) < cnt && len(cps) > 1 {
				parts = append(parts, cps[0])
				cps = cps[1:]
			}
			parts = append(parts, refJoinCPs(cps))
		} else {
			parts = strings.SplitN(s, sep, cnt+1)
		}
		out := make([]any, 0, len(parts))
		for _, p := range parts {
			out = append(out, p)
		}
		return out, ecNone
	case "to_array":
		if a, ok := arr(0); ok {
			return a, ecNone
		}
		return []any{args[0]}, ecNone
	case "to_number":
		if refIsNumber(args[0]) {
			if _, ok := refDec(args[0]); !ok {
				return nil, ecUnspecified
			}
			return args[0], ecNone
		}
		if s, ok := str(0); ok {
			if refIsJSONNumber(s) {
				d, err := decimal128.Parse(s)
				if err != nil {
					return nil, ecUnspecified
				}
				return d, ecNone
			}
			// "Any string that does not conform to the json-number production is
			// converted to null": a sign, a bare fraction, a trailing point, leading
			// zeros, underscores, surrounding blanks, Inf and NaN are not numbers
			return nil, ecNone
		}
		return nil, ecNone
	case "to_string":
		if s, ok := str(0); ok {
			return s, ecNone
		}
		return nil, ecUnspecified
	case "trim", "trim_left", "trim_right":
		s, ok := str(0)
		if !ok {
			return nil, ecType
		}
		cut := ""
		if len(args) == 2 {
			c, ok := str(1)
			if !ok {
				return nil, ecType
			}
			cut = c
		}
		for i := 0; i < len(s); i++ {
			if s[i] >= 0x80 {
				return nil, ecUnspecified
			}
		}
		for i := 0; i < len(cut); i++ {
			if cut[i] >= 0x80 {
				return nil, ecUnspecified
			}
		}
		if cut == "" {
			cut = " \t\n\r\v\f"
		}
		switch n.str {
		case "trim":
			return strings.Trim(s, cut), ecNone
		case "trim_left":
			return strings.TrimLeft(s, cut), ecNone
		}
		return strings.TrimRight(s, cut), ecNone
	case "type":
		t := refTypeName(args[0])
		if t == "other" {
			return nil, ecUnspecified
		}
		return t, ecNone
	case "zip":
		var lists [][]any
		min := -1
		for i := range args {
			a, ok := arr(i)
			if !ok {
				return nil, ecType
			}
			lists = append(lists, a)
			if min < 0 || len(a) < min {
				min = len(a)
			}
		}
		out := make([]any, 0, min)
		for i := 0; i < min; i++ {
			row := make([]any, 0, len(lists))
			for _, l := range lists {
				row = append(row, l[i])
			}
			out = append(out, row)
		}
		return out, ecNone
	}
	return nil, ecUnspecified
}

// refIsJSONNumber: -?(0|[1-9][0-9]*)(.[0-9]+)?([eE][+-]?[0-9]+)?
func refIsJSONNumber(s string) bool {
	i := 0
	if i < len(s) && s[i] == '-' {
		i++
	}
	if i >= len(s) {
		return false
	}
	if s[i] == '0' {
		i++
	} else if s[i] >= '1' && s[i] <= '9' {
		for i < len(s) && isDigit(s[i]) {
			i++
		}
	} else {
		return false
	}
	if i < len(s) && s[i] == '.' {
		i++
		if i >= len(s) || !isDigit(s[i]) {
			return false
		}
		for i < len(s) && isDigit(s[i]) {
			i++
		}
	}
	if i < len(s) && (s[i] == 'e' || s[i] == 'E') {
		i++
		if i < len(s) && (s[i] == '+' || s[i] == '-') {
			i++
		}
		if i >= len(s) || !isDigit(s[i]) {
			return false
		}
		for i < len(s) && isDigit(s[i]) {
			i++
		}
	}
	return i == len(s)
}

// refOrder implements max/min/sort and their _by variants over keys:
// all keys numbers or all strings, otherwise invalid-type. sort/sort_by are
// stable; max/min return the extremal key (max, min) or an element whose key is
// extremal (max_by, min_by: the first such element is reported; callers that
// compare against the implementation accept any extremal element).
func refOrder(fn string, elems []any, keys []any) (any, int) {
	if len(elems) == 0 {
		switch fn {
		case "sort", "sort_by":
			return []any{}, ecNone
		}
		return nil, ecNone
	}
	allStr, allNum := true, true
	for _, k := range keys {
		if _, ok := k.(string); !ok {
			allStr = false
		}
		if _, ok := refDec(k); !ok {
			allNum = false
		}
	}
	if !allStr && !allNum {
		return nil, ecType
	}
	less := func(i, j int) bool {
		if allStr {
			return keys[i].(string) < keys[j].(string)
		}
		a, _ := refDec(keys[i])
		b, _ := refDec(keys[j])
		return decimal128.Compare(a, b) < 0
	}
	switch fn {
	case "max", "max_by", "min", "min_by":
		best := 0
		for i := 1; i < len(keys); i++ {
			if (fn == "max" || fn == "max_by") && less(best, i) {
				best = i
			}
			if (fn == "min" || fn == "min_by") && less(i, best) {
				best = i
			}
		}
		return elems[best], ecNone
	}
	// stable insertion sort on index permutation
	idx := make([]int, len(elems))
	for i := range idx {
		idx[i] = i
	}
	for i := 1; i < len(idx); i++ {
		for j := i; j > 0 && less(idx[j], idx[j-1]); j-- {
			idx[j], idx[j-1] = idx[j-1], idx[j]
		}
	}
	out := make([]any, 0, len(elems))
	for _, i := range idx {
		out = append(out, elems[i])
	}
	return out, ecNone
}

// refFind: find_first / find_last with optional start and end, all measured in
// code points. Negative offsets are left open.
func refFind(last bool, args []any) (any, int) {
	s, ok1 := args[0].(string)
	sub, ok2 := args[1].(string)
	if !ok1 || !ok2 {
		return nil, ecType
	}
	cps := refRunes(s)
	start, end := 0, len(cps)
	// a later argument's type error wins over an earlier one's value error
	for i := 2; i < len(args); i++ {
		if _, isNum, _ := refInt(args[i]); !isNum {
			return nil, ecType
		}
	}
	if len(args) >= 3 {
		v, _, isInt := refInt(args[2])
		if !isInt {
			return nil, ecValue
		}
		if v < 0 {
			return nil, ecUnspecified
		}
		start = v
	}
	if len(args) == 4 {
		v, _, isInt := refInt(args[3])
		if !isInt {
			return nil, ecValue
		}
		if v < 0 {
			return nil, ecUnspecified
		}
		if v < end {
			end = v
		}
	}
	if s == "" || sub == "" {
		return nil, ecNone
	}
	if start > len(cps) {
		return nil, ecNone
	}
	if end <= start {
		return nil, ecNone
	}
	window := refJoinCPs(cps[start:end])
	var bi int
	if last {
		bi = strings.LastIndex(window, sub)
	} else {
		bi = strings.Index(window, sub)
	}
	if bi < 0 {
		return nil, ecNone
	}
	return int64(start + utf8.RuneCountInString(window[:bi])), ecNone
}
