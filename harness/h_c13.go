package jmespath

import (
	"encoding/json"

	"github.com/woodsbury/decimal128"
)

// C13: sort, sort_by, min/max and min_by/max_by order by value, stably.

func c13Key(v any) (decimal128.Decimal, string, int) {
	if s, ok := v.(string); ok {
		return decimal128.Decimal{}, s, 1
	}
	if d, ok := refDec(v); ok {
		return d, "", 0
	}
	return decimal128.Decimal{}, "", 2
}

func c13LessEq(x, y any) bool {
	dx, sx, kx := c13Key(x)
	dy, sy, ky := c13Key(y)
	if kx != ky {
		return false
	}
	if kx == 1 {
		return sx <= sy
	}
	return decimal128.Compare(dx, dy) <= 0
}

// H_C13_sortby: sort_by is a stable permutation ordered by key, on arrays of
// objects {x: key, id: position}; max_by/min_by return an extremal element.
func H_C13_sortby() {
	maxN := 3
	if vrtTier() == 1 {
		maxN = 4
	}
	n := vrtChoose("n", maxN+1)
	strKeys := vrtChoose("keytype", 2) == 1
	arr := make([]any, n)
	keys := make([]any, n)
	for i := 0; i < n; i++ {
		var k any
		if strKeys {
			k = vrtStr("k", 1, smASCII)
		} else {
			k = vrtJNum("k", nfInt|nfDot)
		}
		keys[i] = k
		arr[i] = map[string]any{"x": k, "id": int64(i)}
	}
	snapshot := make([]any, n)
	copy(snapshot, arr)
	got, err := Search("sort_by(@, &x)", arr)
	vrtAssert(err == nil, "sort_by on uniform keys must not fail")
	out, ok := got.([]any)
	vrtAssert(ok && len(out) == n, "sort_by returns a permutation (length)")
	if !ok || len(out) != n {
		return
	}
	seen := make([]bool, n)
	prev := -1
	for i := 0; i < n; i++ {
		m, _ := out[i].(map[string]any)
		id, isID := m["id"].(int64)
		vrtAssert(isID && id >= 0 && int(id) < n && !seen[id], "sort_by returns a permutation (elements)")
		if !isID || id < 0 || int(id) >= n {
			return
		}
		seen[id] = true
		if prev >= 0 {
			vrtAssert(c13LessEq(keys[prev], keys[id]), "sort_by result is ordered by key")
			if c13LessEq(keys[id], keys[prev]) {
				vrtAssert(prev < int(id), "sort_by keeps equal keys in input order")
			}
		}
		prev = int(id)
	}
	for i := range arr {
		vrtAssert(vrtSameObject(arr[i], snapshot[i]), "input array left untouched")
	}
	// extrema
	if n > 0 {
		mx, err := Search("max_by(@, &x).x", arr)
		vrtAssert(err == nil, "max_by")
		mn, err2 := Search("min_by(@, &x).x", arr)
		vrtAssert(err2 == nil, "min_by")
		for i := 0; i < n; i++ {
			vrtAssert(c13LessEq(keys[i], mx), "max_by returns an element with a maximal key")
			vrtAssert(c13LessEq(mn, keys[i]), "min_by returns an element with a minimal key")
		}
	}
}

// H_C13_sort: sort / max / min on arrays of numbers (different spellings of
// equal values) or strings; mixtures are invalid-type.
func H_C13_sort() {
	vrtSpec(3, 1, 1, "x", smASCII, nfInt|nfDot, 0)
	vrtNumRange(0, 2)
	maxN := 3
	if vrtTier() == 1 {
		maxN = 4
	}
	n := vrtChoose("n", maxN+1)
	arr := make([]any, n, n+1)
	for i := range arr {
		arr[i] = vrtDoc("e", 0, uStr|uJNum|uBool|uNil, uScalar)
	}
	for _, expr := range []string{"sort(@)", "max(@)", "min(@)"} {
		diffSearch(expr, arr, false)
	}
}

// H_C13_long: the real sort routine on arrays longer than its small-array
// threshold, two key values: sort_by must stay stable.
func H_C13_long() {
	n := 13
	if vrtChoose("n", 2) == 1 {
		n = 14
	}
	strKeys := vrtChoose("keytype", 2) == 1
	arr := make([]any, n)
	keys := make([]int, n)
	for i := 0; i < n; i++ {
		k := i % 2
		// quick: six symbolic tie positions, the rest alternate; thorough: all symbolic
		if vrtTier() == 1 || i == 0 || i == 3 || i == 5 || i == 8 || i == 10 || i == 12 {
			k = vrtIntRange("k", 0, 1)
		}
		keys[i] = k
		if strKeys {
			arr[i] = map[string]any{"x": string(rune('a' + k)), "id": int64(i)}
		} else {
			arr[i] = map[string]any{"x": int64(k), "id": int64(i)}
		}
	}
	got, err := Search("sort_by(@, &x)[*].id", arr)
	vrtAssert(err == nil, "sort_by")
	out, _ := got.([]any)
	vrtAssert(len(out) == n, "permutation length")
	prev := -1
	for i := 0; i < len(out); i++ {
		id, ok := out[i].(int64)
		if !ok || id < 0 || int(id) >= n {
			vrtAssert(false, "permutation element")
			return
		}
		if prev >= 0 {
			vrtAssert(keys[prev] <= keys[id], "ordered by key")
			if keys[prev] == keys[id] {
				vrtAssert(prev < int(id), "sort_by keeps equal keys in input order (long array)")
			}
		}
		prev = int(id)
	}
}

// c13Near: numbers that differ only beyond binary64 precision, or are equal in
// value but spelled differently.
var c13Near = []string{"9007199254740993", "9007199254740992", "9007199254740992.0", "0.3000000000000000000001", "0.3", "0.30", "1.00000000000000000002", "1.00000000000000000001", "1", "1e0", "-0.1", "-0.10000000000000000001", "123456789012345678901234567890123", "123456789012345678901234567890124"}

// H_C13_near: ordering functions on near-miss numbers, against the reference
// (the engine hands concrete decimals to the real decimal128 library).
func H_C13_near() {
	n := 2 + vrtChoose("n", 2)
	arr := make([]any, n)
	for i := range arr {
		arr[i] = json.Number(c13Near[vrtChoose("v", len(c13Near))])
	}
	objs := make([]any, n)
	for i := range arr {
		objs[i] = map[string]any{"x": arr[i], "id": int64(i)}
	}
	exprs := []string{"sort(@)", "max(@)", "min(@)", "@[0] < @[1]", "@[0] == @[1]", "@[0] <= @[1]"}
	for _, e := range exprs {
		diffSearch(e, arr, false)
	}
	diffSearch("sort_by(@, &x)[*].id", objs, false)
	diffSearch("max_by(@, &x).x", objs, false)
	diffSearch("min_by(@, &x).x", objs, false)
}

// H_C13_nested: ordering functions used inside the key expression of another
// ordering function (each call has its own keys: nothing of the outer call may
// be disturbed by the inner one). Three groups of two members with symbolic
// values; the outer key is the smallest / largest member value of the group.
var c13NestedForms = []string{
	"sort_by(@, &sort_by(m, &v)[0].v)[*].id",
	"sort_by(@, &max_by(m, &v).v)[*].id",
	"sort_by(@, &sort(m[*].v)[0])[*].id",
	"max_by(@, &sort_by(m, &v)[0].v).m[*].v | min(@)",
	"sort_by(@, &min(m[*].v))[*].id",
	"sort_by(@, &sort_by(m, &v)[-1].v)[*].[id, sort_by(m, &v)[0].v]",
}

func H_C13_nested() {
	form := c13NestedForms[vrtChoose("form", len(c13NestedForms))]
	vrtNote("template:" + form)
	groups := make([]any, 3)
	for i := range groups {
		a := int64(vrtIntRange("a", 0, 4))
		b := int64(vrtIntRange("b", 0, 4))
		groups[i] = map[string]any{"id": int64(i), "m": []any{map[string]any{"v": a}, map[string]any{"v": b}}}
	}
	diffSearch(form, groups, false)
}
