package jmespath

// Native replay of counterexamples: the same harness functions that the
// engine executed symbolically are run here against the real build, with the
// vrt runtime handing back the recorded inputs.

import (
	"encoding/json"
	"fmt"
	"os"
	"runtime/debug"
	"strings"
	"testing"
	"time"
)

func TestVerifReplay(t *testing.T) {
	list := os.Getenv("VERIF_CEX_LIST")
	if list == "" {
		t.Skip("no counterexamples")
	}
	for _, path := range strings.Split(list, ":") {
		if path == "" {
			continue
		}
		res := vrtReplayOne(path)
		out, _ := json.Marshal(res)
		fmt.Printf("REPLAY-RESULT %s\n", out)
	}
}

type vrtReplayResult struct {
	Path     string   `json:"path"`
	Harness  string   `json:"harness"`
	Failed   []string `json:"failed"`
	Panic    string   `json:"panic,omitempty"`
	Stack    string   `json:"stack,omitempty"`
	Diverged string   `json:"diverged,omitempty"`
	Seconds  float64  `json:"seconds"`
	Notes    []string `json:"notes,omitempty"`
}

func vrtReplayOne(path string) (res vrtReplayResult) {
	res.Path = path
	data, err := os.ReadFile(path)
	if err != nil {
		res.Diverged = err.Error()
		return
	}
	var hdr struct {
		Harness string `json:"harness"`
	}
	json.Unmarshal(data, &hdr)
	res.Harness = hdr.Harness
	fn, ok := vrtHarnesses[hdr.Harness]
	if !ok {
		res.Diverged = "unknown harness " + hdr.Harness
		return
	}
	if err := vrtLoad(path); err != nil {
		res.Diverged = err.Error()
		return
	}
	t0 := time.Now()
	defer func() {
		res.Seconds = time.Since(t0).Seconds()
		res.Failed = vrtS.failed
		res.Notes = vrtS.notes
		if r := recover(); r != nil {
			if a, ok := r.(vrtAbort); ok {
				res.Diverged = a.why
				return
			}
			res.Panic = fmt.Sprint(r)
			res.Stack = string(debug.Stack())
		}
	}()
	fn()
	return
}
