package jmespath

import (
	"errors"

	"github.com/woodsbury/jmespath/internal/evaluator"
	"github.com/woodsbury/jmespath/internal/lexer"
	"github.com/woodsbury/jmespath/internal/parser"
)

// C08: failures follow the documented error contract; static errors ignore the data.

// H_C08_internal: every internal error maps to exactly one public category,
// the one the contract prescribes, and can be formatted.
func H_C08_internal() {
	s := vrtStr("s", 2, smBytes)
	i := vrtInt("i")
	switch vrtChoose("pkg", 4) {
	case 0:
		errs := parser.VerifErrors(s)
		want := []int{ecType, ecArity, ecValue, ecUnknownFn, ecSyntax, ecSyntax, ecSyntax, ecSyntax}
		k := vrtChoose("err", len(errs))
		pub := parseError(s, errs[k])
		vrtAssert(pub != nil, "parse errors are reported")
		_ = pub.Error()
		vrtAssert(classOf(pub) >= 0, "exactly one public category")
		vrtAssert(ecOfError(pub) == want[k], "parser error maps to the wrong category: want "+ecNames[want[k]])
	case 1:
		errs := lexer.VerifErrors(rune(vrtIntRange("r", -1, 0x110000)))
		k := vrtChoose("err", len(errs))
		pub := parseError(s, errs[k])
		_ = pub.Error()
		vrtAssert(ecOfError(pub) == ecSyntax, "lexer errors are syntax errors")
	case 2:
		var v any
		switch vrtChoose("v", 3) {
		case 0:
			v = nil
		case 1:
			v = s
		default:
			v = []any{}
		}
		errs, cats := evaluator.VerifErrors(s, i, v)
		k := vrtChoose("err", len(errs))
		pub := evaluateError(errs[k])
		vrtAssert(pub != nil, "evaluation errors are reported")
		_ = pub.Error()
		c := classOf(pub)
		vrtAssert(c >= 0, "exactly one public category")
		var want int
		switch {
		case cats[k] == nil:
			want = 7 // evaluation failed
		case errors.Is(cats[k], evaluator.ErrInvalidType):
			want = 3
		case errors.Is(cats[k], evaluator.ErrInvalidValue):
			want = 4
		case errors.Is(cats[k], evaluator.ErrUndefinedVariable):
			want = 5
		default:
			want = 6 // infinity / not a number
		}
		vrtAssert(c == want, "evaluator error maps to the wrong category")
	default:
		pub := evaluateError(errors.New(s))
		_ = pub.Error()
		vrtAssert(classOf(pub) == 7, "foreign errors are evaluation-failed")
		pub2 := parseError(s, errors.New(s))
		_ = pub2.Error()
		vrtAssert(classOf(pub2) == 0, "unknown parse errors are syntax errors")
	}
}

var c08Static = []string{
	"[", "a[", "a..b", "a b", "'x", "`[1`", "\"\\q\"", "abs()", "abs(a, b)", "nosuch(a)", "sort_by(a, b)", "map(a, b)", "abs(&a)", "a[::0]", "a[1:2:0]",
	"1a", "007", "42", "9_lives", "1", "a1 2b", "0x1", "1e3", "-1",
	"@@", "a |", "| a", "{a}", "{a: }", "[a,]", "a.1", "foo[1", "foo.", "length(a b)", "&a", "a ? b", "#", "a == ", "let $x in a", "let x = a in b", "$x = a",
}

// H_C08_static: syntax, arity, unknown-function and expression-reference
// faults are decided by the text alone.
func H_C08_static() {
	vrtSpec(2, 2, 1, "a,b", smASCII, nfInt, 0)
	expr := c08Static[vrtChoose("expr", len(c08Static))]
	vrtNote("template:" + expr)
	d1 := vrtDoc("d1", 2, uAll, uAll)
	d2 := vrtDoc("d2", 2, uAll, uAll)
	r1, err1 := Search(expr, d1)
	r2, err2 := Search(expr, d2)
	e, cerr := Compile(expr)
	vrtAssert(cerr != nil && e == nil, "statically invalid expression must not compile")
	vrtAssert(err1 != nil && err2 != nil && r1 == nil && r2 == nil, "Search must fail with a nil result")
	if cerr != nil && err1 != nil && err2 != nil {
		c := classOf(cerr)
		vrtAssert(c >= 0 && c <= 4, "static fault has a static category")
		vrtAssert(classOf(err1) == c && classOf(err2) == c, "static fault is reported identically for every document")
		vrtAssert(err1.Error() == cerr.Error() && err2.Error() == cerr.Error(), "static fault message depends on the data")
	}
	vrtAssert(vrtUntouched(d1) && vrtUntouched(d2), "the data was inspected although the expression is statically invalid")
	_, ec := refParse(expr)
	if ec != ecNone && ec != ecUnspecified && cerr != nil {
		got := ecOfError(cerr)
		if ec == ecType {
			vrtAssert(got == ecType || got == ecSyntax, "misplaced expression reference: invalid-type (or syntax)")
		} else {
			vrtAssert(got == ec, "static fault category differs from the specification: want "+ecNames[ec])
		}
	}
}

var c08Runtime = []string{
	"abs(a)", "a + b", "a / b", "length(a)", "$nope", "a[*].[$nope]", "sort(a)", "pad_left(a, b)", "from_items(a)", "to_string(a)", "keys(a)", "join(a, b)",
	"let $p = $missing in $p", "let $p = a, $q = $p in $q", "a[*].[let $p = $nope in $p]", "sort_by(a, &$nope)", "map(&[$nope], a)", "let $p = abs(a) in $p", "let $p = a in b[?$q]",
	"sum(a)", "a.b", "a[0]", "let $x = a in $x", "max_by(a, &b)", "split(a, b, `-1`)", "avg(a)", "merge(a, b)", "`1` / `0`", "ceil(a)",
}

// H_C08_runtime: a compiled Expression only ever reports run-time categories,
// exactly one of them, with a nil result.
func H_C08_runtime() {
	vrtSpec(tq(2, 3), 2, 1, "a,b", smASCII, nfInt|nfFrac, 0)
	vrtNumRange(-2, 2)
	expr := c08Runtime[vrtChoose("expr", len(c08Runtime))]
	vrtNote("template:" + expr)
	e, cerr := Compile(expr)
	vrtAssert(cerr == nil, "template compiles")
	if cerr != nil {
		return
	}
	doc := vrtDoc("d", 2, uJSON, uJSON)
	r, err := e.Search(doc)
	if err == nil {
		return
	}
	_ = err.Error()
	c := classOf(err)
	vrtAssert(r == nil, "failed call returns nil")
	vrtAssert(c >= 0, "exactly one category")
	vrtAssert(c >= 3, "a compiled expression reported a static category (syntax, arity, unknown function)")
	// the category is the one the specification names for the fault
	_, ec := refSearch(expr, doc)
	if ec != ecUnspecified && ec != ecNone {
		vrtAssert(ecOfError(err) == ec, "run-time fault reported with the wrong category: want "+ecNames[ec])
	}
	vrtReach("error")
}

// H_C08_bytes: for every short expression text, Search reports exactly what
// Compile reports, for every document, without looking at the document.
func H_C08_bytes() {
	vrtSpec(1, 2, 1, "a,1a,1", smASCII, nfInt, 0)
	maxLen := 2
	if vrtTier() == 1 {
		maxLen = 3
	}
	n := 1 + vrtChoose("len", maxLen)
	expr := vrtStrN("e", n, smASCII)
	doc := vrtDoc("d", 1, uJSON|uInt|uForeignPtr, uScalar)
	_, cerr := Compile(expr)
	r, serr := Search(expr, doc)
	if cerr != nil {
		vrtAssert(serr != nil && r == nil, "Search accepts an expression Compile rejects")
		if serr != nil {
			vrtAssert(classOf(serr) == classOf(cerr), "Search and Compile report different categories for a static fault")
		}
		vrtAssert(vrtUntouched(doc), "the data was inspected although the expression is statically invalid")
	} else if serr != nil {
		c := classOf(serr)
		vrtAssert(c >= 3, "Search reports a static category for an expression that compiles")
	}
}

// H_C08_text: like H_C08_bytes with code points of every width (letters,
// digits and spaces beyond ASCII included): no text is accepted by one entry
// point and rejected by another, whatever the document.
func H_C08_text() {
	vrtSpec(1, 2, 1, "a,1a,1", smASCII, nfInt, 0)
	n := 1 + vrtChoose("len", tq(2, 3))
	expr := vrtStrN("e", n, smUTF8)
	doc := vrtDoc("d", 1, uObj|uArr|uNil|uStr, uScalar)
	e, cerr := Compile(expr)
	r, serr := Search(expr, doc)
	if cerr != nil {
		vrtAssert(serr != nil && r == nil, "Search accepts an expression Compile rejects")
		if serr != nil {
			vrtAssert(classOf(serr) == classOf(cerr), "Search and Compile report different categories for a static fault")
		}
		vrtAssert(vrtUntouched(doc), "the data was inspected although the expression is statically invalid")
		return
	}
	r2, serr2 := e.Search(doc)
	vrtAssert((serr == nil) == (serr2 == nil), "one-shot Search and the compiled expression disagree on failure")
	if serr == nil && serr2 == nil {
		vrtAssert(refEqual(r, r2), "one-shot Search and the compiled expression return different values")
	}
}
