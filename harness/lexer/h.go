package lexer

// VerifNext runs one Next from an arbitrary lexer state.
func VerifNext(expr string, pos int) (Token, int, error) {
	l := Lexer{expression: expr, position: pos}
	var t Token
	err := l.Next(&t)
	return t, l.position, err
}

// VerifErrors returns one value of every error this package can return.
func VerifErrors(r rune) []error {
	return []error{errInvalidRune, errUnexpectedEndOfExpression, &unexpectedRuneError{r}}
}
