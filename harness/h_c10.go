package jmespath

// C10: operators bind with the specified precedence and associate to the left.
// Both sides of each comparison go through the real parser and evaluator; only
// the expected grouping comes from the precedence table.

type c10Op struct {
	text string
	prec int
}

var c10Ops = []c10Op{
	{"|", 1}, {"||", 2}, {"&&", 3}, {"==", 5}, {"!=", 5}, {"<", 5}, {"<=", 5}, {">", 5}, {">=", 5},
	{"+", 6}, {"-", 6}, {"−", 6}, {"*", 7}, {"×", 7}, {"/", 7}, {"÷", 7}, {"//", 7}, {"%", 7},
}

func c10Same(e1, e2 string, doc any) {
	r1, err1 := Search(e1, doc)
	r2, err2 := Search(e2, doc)
	vrtAssert((err1 == nil) == (err2 == nil), "implicit and explicit grouping: one fails, the other does not")
	if err1 != nil || err2 != nil {
		if err1 != nil && err2 != nil {
			vrtAssert(classOf(err1) == classOf(err2), "implicit and explicit grouping fail with different categories")
		}
		return
	}
	vrtAssert(refEqual(r1, r2), "implicit grouping differs from the grouping the precedence table dictates")
}

func c10Doc() any { return c10DocP(true) }

func c10DocP(pipe bool) any {
	vrtSpec(1, 2, 1, "a,b,c", smASCII, nfInt, 0)
	vrtNumRange(-3, 3)
	vrtNested(tq(1, 2))
	// operands are scalars, small arrays or (to tell groupings around | apart)
	// objects that again have members a, b, c
	u, cu := uNil|uBool|uJNum, uNil|uBool|uJNum
	if pipe {
		u |= uObj
	}
	if vrtTier() == 1 {
		u, cu = uJSON, uScalar
	}
	return map[string]any{
		"a": vrtDoc("a", 1, u, cu),
		"b": vrtDoc("b", 1, u, cu),
		"c": vrtDoc("c", 1, u, cu),
	}
}

// H_C10_pairs: every ordered pair of the 18 binary spellings.
func H_C10_pairs() {
	i := vrtChoose("op1", len(c10Ops))
	j := vrtChoose("op2", len(c10Ops))
	o1, o2 := c10Ops[i], c10Ops[j]
	expr := "a " + o1.text + " b " + o2.text + " c"
	var paren string
	if o1.prec >= o2.prec {
		paren = "(a " + o1.text + " b) " + o2.text + " c"
	} else {
		paren = "a " + o1.text + " (b " + o2.text + " c)"
	}
	vrtNote("template:" + expr)
	doc := c10DocP(o1.prec == 1 || o2.prec == 1)
	c10Same(expr, paren, doc)
	// parentheses override: the other grouping must be honoured as written
	var other string
	if o1.prec >= o2.prec {
		other = "a " + o1.text + " (b " + o2.text + " c)"
	} else {
		other = "(a " + o1.text + " b) " + o2.text + " c"
	}
	got, err := Search(other, doc)
	want, ec := refSearch(other, doc)
	if ec == ecNone && err == nil {
		vrtAssert(refEqual(got, want), "parenthesised grouping is not honoured")
	}
}

// H_C10_unary: !, unary - and + bind tighter than every binary operator, and a
// projection on the left is closed by the operator.
func H_C10_unary() {
	j := vrtChoose("op", len(c10Ops))
	o := c10Ops[j]
	doc := c10Doc()
	switch vrtChoose("form", 5) {
	case 0:
		e := "!a " + o.text + " b"
		vrtNote("template:" + e)
		c10Same(e, "(!a) "+o.text+" b", doc)
	case 1:
		e := "a " + o.text + " !b"
		vrtNote("template:" + e)
		c10Same(e, "a "+o.text+" (!b)", doc)
	case 2:
		e := "-a " + o.text + " b"
		vrtNote("template:" + e)
		c10Same(e, "(-a) "+o.text+" b", doc)
	case 3:
		e := "a " + o.text + " -b"
		vrtNote("template:" + e)
		c10Same(e, "a "+o.text+" (-b)", doc)
	default:
		e := "a[*].b " + o.text + " c"
		vrtNote("template:" + e)
		d2 := map[string]any{"a": vrtDoc("a", 2, uJSON, uJSON), "c": vrtDoc("c", 1, uJSON, uScalar)}
		c10Same(e, "(a[*].b) "+o.text+" c", d2)
	}
}

// H_C10_triples: three operators from precedence-class representatives.
func H_C10_triples() {
	reps := []c10Op{{"|", 1}, {"||", 2}, {"&&", 3}, {"==", 5}, {"<", 5}, {"+", 6}, {"-", 6}, {"*", 7}, {"//", 7}}
	o1 := reps[vrtChoose("op1", len(reps))]
	o2 := reps[vrtChoose("op2", len(reps))]
	o3 := reps[vrtChoose("op3", len(reps))]
	expr := "a " + o1.text + " b " + o2.text + " c " + o3.text + " a"
	vrtNote("template:" + expr)
	c10Last = c10DocP(o1.prec == 1 || o2.prec == 1 || o3.prec == 1)
	got, err := Search(expr, c10Last)
	want, ec := refSearch(expr, c10Last)
	if ec == ecUnspecified {
		return
	}
	if ec != ecNone {
		vrtAssert(err != nil && ecOfError(err) == ec, "error category differs from the specification: want "+ecNames[ec])
		return
	}
	vrtAssert(err == nil, "unexpected error")
	if err == nil {
		vrtAssert(refEqual(got, want), "value differs from the specified grouping")
	}
}

var c10Last any

// H_C10_selectors: an operand that ends in a selector which may or may not be
// followed by a projected right-hand side (flatten, wildcard, filter, slice,
// index) in each operand position of a two-operator chain: the operators
// group as they do around plain operands (differential against the reference
// parser and evaluator).
func H_C10_selectors() {
	reps := []string{"|", "||", "&&", "==", "+", "*"}
	sels := []string{"a[]", "a[*]", "a[?b]", "a[1:]", "a.*", "a[0]", "a[].b"}
	ns, nr := len(sels), len(reps)
	if vrtTier() == 0 {
		ns, nr = 3, 5
	}
	o1 := reps[vrtChoose("op1", nr)]
	o2 := reps[vrtChoose("op2", nr)]
	x := sels[vrtChoose("sel", ns)]
	var expr string
	switch vrtChoose("pos", 3) {
	case 0:
		expr = x + " " + o1 + " b " + o2 + " c"
	case 1:
		expr = "b " + o1 + " " + x + " " + o2 + " c"
	default:
		expr = "b " + o1 + " c " + o2 + " " + x
	}
	vrtNote("template:" + expr)
	vrtSpec(2, 2, 1, "a,b,c", smASCII, nfInt, 0)
	vrtNumRange(0, 2)
	vrtNested(1)
	doc := map[string]any{
		"a": vrtDoc("a", 2, uArr|uNil, uNil|uBool|uArr|uObj),
		"b": vrtDoc("b", 0, uNil|uBool|uJNum, uJNum),
		"c": vrtDoc("c", 0, uNil|uBool|uJNum, uJNum),
	}
	diffSearch(expr, doc, c01Unordered(expr))
}

// H_C10_unary2: a prefix operator on any operand of a two-operator chain takes
// exactly that operand, whatever follows it: a o1 -b o2 c is a o1 (-b) o2 c
// (a parser that rewrites "- -b" or parses the operand of a sign with a looser
// binding power lets the sign cover b o2 c).
func H_C10_unary2() {
	reps := []c10Op{{"||", 2}, {"&&", 3}, {"==", 5}, {"<", 5}, {"+", 6}, {"-", 6}, {"−", 6}, {"*", 7}, {"/", 7}, {"//", 7}, {"%", 7}}
	o1 := reps[vrtChoose("op1", len(reps))].text
	o2 := reps[vrtChoose("op2", len(reps))].text
	pre := []string{"-", "!", "+"}[vrtChoose("prefix", 3)]
	doc := c10DocP(false)
	switch vrtChoose("pos", 4) {
	case 0:
		e := pre + "a " + o1 + " b " + o2 + " c"
		vrtNote("template:" + e)
		c10Same(e, "("+pre+"a) "+o1+" b "+o2+" c", doc)
	case 1:
		e := "a " + o1 + " " + pre + "b " + o2 + " c"
		vrtNote("template:" + e)
		c10Same(e, "a "+o1+" ("+pre+"b) "+o2+" c", doc)
	case 2:
		e := "a " + o1 + " b " + o2 + " " + pre + "c"
		vrtNote("template:" + e)
		c10Same(e, "a "+o1+" b "+o2+" ("+pre+"c)", doc)
	default:
		e := "a " + o1 + " " + pre + pre + "b " + o2 + " c"
		vrtNote("template:" + e)
		c10Same(e, "a "+o1+" ("+pre+"("+pre+"b)) "+o2+" c", doc)
	}
}
