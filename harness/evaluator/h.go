package evaluator

import (
	"errors"
	"reflect"

	"github.com/woodsbury/decimal128"
)

// VerifErrors returns one value of every error type of this package
// (want: the evaluator-side category each must map to).
func VerifErrors(s string, i int, v any) ([]error, []error) {
	errs := []error{
		ErrInfinity, ErrInvalidType, ErrInvalidValue, ErrNotANumber,
		&InvalidTypeError{got: reflect.TypeOf(v), want: s},
		&InvalidTypeError{got: nil, want: ""},
		&UndefinedVariableError{Variable: s},
		&fromItemsKeyTypeError{key: reflect.TypeOf(v)},
		&fromItemsLengthError{length: i},
		&integerConversionError{num: decimal128.FromInt64(int64(i))},
		&negativeIntegerError{i: i},
		&padLengthError{pad: s},
		&stringConversionError{err: errors.New(s)},
		&unexpectedOperationError{op: reflect.TypeOf(&padLengthError{})},
	}
	cats := []error{
		ErrInfinity, ErrInvalidType, ErrInvalidValue, ErrNotANumber,
		ErrInvalidType, ErrInvalidType, ErrUndefinedVariable, ErrInvalidValue, ErrInvalidValue, ErrInvalidValue, ErrInvalidValue, ErrInvalidValue, nil, nil,
	}
	return errs, cats
}
