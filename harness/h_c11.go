package jmespath

// C11: string operations count Unicode code points and never corrupt text.
// Strings have 0..N code points, each of symbolic width 1..4 bytes (valid
// UTF-8; the ranges include U+FFFD, combining marks and astral code points).

var c11Exprs = []string{
	"length(a)", "reverse(a)", "find_first(a, b)", "find_last(a, b)", "find_first(a, b, c)", "find_last(a, b, c)",
	"find_first(a, b, c, d)", "find_last(a, b, c, d)", "pad_left(a, c)", "pad_right(a, c)", "pad_left(a, c, b)", "pad_right(a, c, b)",
	"split(a, '')", "split(a, '', c)", "split(a, b)", "contains(a, b)", "starts_with(a, b)", "ends_with(a, b)",
	"sort([a, b])", "max([a, b])", "min([a, b])", "a < b", "sort_by([{x: a}, {x: b}], &x)[*].x", "join(b, [a, a])", "replace(a, b, a)",
}

func c11ValidResult(v any) bool {
	switch x := v.(type) {
	case string:
		return vrtValidUTF8(x)
	case []any:
		for _, e := range x {
			if !c11ValidResult(e) {
				return false
			}
		}
	}
	return true
}

// H_C11_strings: differential against refjp (strings as code point lists) plus
// "every string in the result is valid UTF-8".
func H_C11_strings() {
	n := 2
	if vrtTier() == 1 {
		n = 3
	}
	k := vrtChoose("expr", len(c11Exprs))
	expr := c11Exprs[k]
	vrtNote("template:" + expr)
	vrtSpec(2, 1, 2, "x", smASCII, nfInt, 0)
	vrtNumRange(0, 4)
	doc := map[string]any{
		"a": vrtStr("a", n, smUTF8|(0x4f<<2)), // 1-4 byte classes incl. U+FFFD's
		"b": vrtStr("b", 1, smUTF8|(0x4f<<2)),
		"c": vrtJNum("c", nfInt),
		"d": vrtJNum("d", nfInt),
	}
	got, err := Search(expr, doc)
	if err == nil {
		vrtAssert(c11ValidResult(got), "result contains invalid UTF-8")
	}
	if expr == "a < b" {
		return // ordering of strings with < is left open; only UTF-8 validity is asserted
	}
	want, ec := refSearch(expr, doc)
	if ec == ecUnspecified {
		return
	}
	if ec != ecNone {
		vrtAssert(err != nil && ecOfError(err) == ec, "error category differs from the specification: want "+ecNames[ec])
		return
	}
	vrtAssert(err == nil, "unexpected error")
	if err == nil {
		vrtAssert(refEqual(got, want), "value differs from the code-point based specification")
	}
}

// H_C11_order: byte-wise comparison of valid UTF-8 equals code point order, so
// sort/max/min order strings by code point (asserted on the symbolic strings).
func H_C11_order() {
	a := vrtStrN("a", 1, smUTF8|(0x1ff<<2))
	b := vrtStrN("b", 1, smUTF8|(0x1ff<<2))
	ra, rb := []rune(a), []rune(b)
	vrtAssume(len(ra) == 1 && len(rb) == 1)
	got, err := Search("sort(@)", []any{a, b})
	vrtAssert(err == nil, "sort of strings")
	arr, _ := got.([]any)
	vrtAssert(len(arr) == 2, "sort keeps both strings")
	if len(arr) == 2 {
		x, _ := arr[0].(string)
		y, _ := arr[1].(string)
		rx, ry := []rune(x), []rune(y)
		if len(rx) == 1 && len(ry) == 1 {
			vrtAssert(rx[0] <= ry[0], "strings are ordered by code point")
		} else {
			vrtAssert(false, "sort corrupted a string")
		}
	}
}

// H_C11_padwide: padding far beyond the subject (up to 100 pad characters, so
// that block-wise or doubling implementations cross their block boundaries)
// with a pad character of symbolic width 1..4 bytes: the result has exactly
// the requested number of code points, is valid UTF-8 and equals the
// code-point based construction.
func H_C11_padwide() {
	vrtSpec(2, 1, 2, "x", smASCII, nfInt, 0)
	vrtBudget(3000000)
	vrtMaxAlloc(200)
	w := vrtIntRange("w", 0, 100)
	forms := []string{"pad_left(a, c, b)", "pad_right(a, c, b)", "length(pad_left(a, c, b))", "pad_left(a, c)", "pad_right(a, c)"}
	expr := forms[vrtChoose("form", len(forms))]
	vrtNote("template:" + expr)
	doc := map[string]any{
		"a": vrtStr("a", 1, smUTF8|(0x4f<<2)),
		"b": vrtStrN("b", 1, smUTF8|(0x4f<<2)),
		"c": w,
	}
	got, err := Search(expr, doc)
	if err == nil {
		vrtAssert(c11ValidResult(got), "result contains invalid UTF-8")
	}
	want, ec := refSearch(expr, doc)
	if ec == ecUnspecified {
		return
	}
	if ec != ecNone {
		vrtAssert(err != nil && ecOfError(err) == ec, "error category differs from the specification: want "+ecNames[ec])
		return
	}
	vrtAssert(err == nil, "unexpected error")
	if err == nil {
		vrtAssert(refEqual(got, want), "value differs from the code-point based specification")
	}
}

// H_C11_leads: a code point from every class of UTF-8 lead byte (C2..DF, E0,
// E1..EC, ED, EE..EF, F0, F1..F3, F4 - tables of byte widths go wrong at the
// class boundaries) followed by an ASCII character, through every string
// operation of the property.
var c11LeadExprs = append([]string{"a[1:]", "a[:2]", "a[::2]", "a[::-1]", "a[1:2]", "a[:]", "a[-1:]", "a[:-1]", "length(a[1:])", "reverse(a)[1:]"}, c11Exprs...)

func H_C11_leads() {
	k := vrtChoose("expr", len(c11LeadExprs))
	expr := c11LeadExprs[k]
	vrtNote("template:" + expr)
	vrtSpec(2, 1, 2, "x", smASCII, nfInt, 0)
	vrtNumRange(0, 3)
	doc := map[string]any{
		"a": vrtStrN("p", 1, smUTF8|(0x1ff<<2)) + vrtStr("q", 1, smASCII) + vrtStrN("r", 1, smUTF8|(0x1fe<<2)),
		"b": vrtStrN("b", 1, smASCII),
		"c": vrtJNum("c", nfInt),
		"d": vrtJNum("d", nfInt),
	}
	got, err := Search(expr, doc)
	if err == nil {
		vrtAssert(c11ValidResult(got), "result contains invalid UTF-8")
	}
	if expr == "a < b" {
		return
	}
	want, ec := refSearch(expr, doc)
	if ec == ecUnspecified {
		return
	}
	if ec != ecNone {
		vrtAssert(err != nil && ecOfError(err) == ec, "error category differs from the specification: want "+ecNames[ec])
		return
	}
	vrtAssert(err == nil, "unexpected error")
	if err == nil {
		vrtAssert(refEqual(got, want), "value differs from the code-point based specification")
	}
}
