package jmespath

import "errors"

// Function-call templates shared by several properties. Arguments are the
// members a, b, c, d of the document; expression references use &x / &@.
type fnTemplate struct {
	fn    string
	expr  string
	nargs int // number of document members used (a..)
}

var fnTemplates = []fnTemplate{
	{"abs", "abs(a)", 1},
	{"avg", "avg(a)", 1},
	{"ceil", "ceil(a)", 1},
	{"contains", "contains(a, b)", 2},
	{"ends_with", "ends_with(a, b)", 2},
	{"find_first", "find_first(a, b)", 2},
	{"find_first", "find_first(a, b, c)", 3},
	{"find_first", "find_first(a, b, c, d)", 4},
	{"find_last", "find_last(a, b)", 2},
	{"find_last", "find_last(a, b, c)", 3},
	{"find_last", "find_last(a, b, c, d)", 4},
	{"floor", "floor(a)", 1},
	{"from_items", "from_items(a)", 1},
	{"group_by", "group_by(a, &x)", 1},
	{"items", "items(a)", 1},
	{"join", "join(a, b)", 2},
	{"keys", "keys(a)", 1},
	{"length", "length(a)", 1},
	{"lower", "lower(a)", 1},
	{"map", "map(&x, a)", 1},
	{"max", "max(a)", 1},
	{"max_by", "max_by(a, &x)", 1},
	{"merge", "merge(a, b)", 2},
	{"min", "min(a)", 1},
	{"min_by", "min_by(a, &x)", 1},
	{"not_null", "not_null(a, b)", 2},
	{"pad_left", "pad_left(a, b)", 2},
	{"pad_left", "pad_left(a, b, c)", 3},
	{"pad_right", "pad_right(a, b)", 2},
	{"pad_right", "pad_right(a, b, c)", 3},
	{"replace", "replace(a, b, c)", 3},
	{"replace", "replace(a, b, c, d)", 4},
	{"reverse", "reverse(a)", 1},
	{"sort", "sort(a)", 1},
	{"sort_by", "sort_by(a, &x)", 1},
	{"split", "split(a, b)", 2},
	{"split", "split(a, b, c)", 3},
	{"starts_with", "starts_with(a, b)", 2},
	{"sum", "sum(a)", 1},
	{"to_array", "to_array(a)", 1},
	{"to_number", "to_number(a)", 1},
	{"to_string", "to_string(a)", 1},
	{"trim", "trim(a)", 1},
	{"trim", "trim(a, b)", 2},
	{"trim_left", "trim_left(a)", 1},
	{"trim_left", "trim_left(a, b)", 2},
	{"trim_right", "trim_right(a)", 1},
	{"trim_right", "trim_right(a, b)", 2},
	{"type", "type(a)", 1},
	{"upper", "upper(a)", 1},
	{"values", "values(a)", 1},
	{"zip", "zip(a, b)", 2},
}

var argNames = []string{"a", "b", "c", "d"}

// errorClasses are the eight exported categories.
var errorClasses = []error{ErrSyntax, ErrInvalidArity, ErrUnknownFunction, ErrInvalidType, ErrInvalidValue, ErrUndefinedVariable, ErrNotANumber, ErrEvaluationFailed}

// classOf returns the index of the single category err matches, -1 if none,
// -2 if several.
func classOf(err error) int {
	k := -1
	for i, c := range errorClasses {
		if errors.Is(err, c) {
			if k >= 0 {
				return -2
			}
			k = i
		}
	}
	return k
}

// touchError formats the error and tests it against every category.
func touchError(err error) int {
	if err == nil {
		return -1
	}
	_ = err.Error()
	return classOf(err)
}
