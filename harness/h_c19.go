package jmespath

import "strconv"

// C19: let-bindings are lexically scoped and capture the value at binding time.

var c19Exprs = []string{
	"let $x = a in $x",
	"let $x = a in b[*].[$x, a]",
	"let $x = a in b[?a == $x]",
	"let $x = a in b | $x",
	"let $x = a in b | [$x, a]",
	"let $x = a in {p: $x, q: b}",
	"let $x = a, $y = b in [$x, $y]",
	"let $x = a in let $x = b in $x",
	"let $x = a in [let $x = b in $x, $x]",
	"let $x = a in let $y = $x in let $x = b in [$x, $y]",
	"let $x = a, $y = $x in $y",
	"let $x = a in let $x = b, $y = $x in $y",
	"let $x = a, $y = b in let $x = b in [$x, $y]",
	"let $y = a in let $x = a, $y = b in let $x = b in [$x, $y]",
	"let $x = a, $y = b in b[*].[let $y = a in [$x, $y]]",
	"let $x = a in b[*].[let $x = a in $x, $x]",
	"let $x = a in map(&[$x, @], b)",
	"let $x = a in sort_by(b, &a)[*].[$x]",
	"let $x = a in max_by(b, &(a || $x))",
	"let $x = b[0] in b[*].[$x.a, a]",
	"b[*].[let $x = a in $x]",
	"let $x = a in b[*].[let $y = a in [$x, $y]]",
	"$x",
	"b[*].$x",
	"b[?$x]",
	"[let $x = a in $x, $x]",
	"let $x = a in $y",
	"let $x = a in (let $y = b in $y) | [$x]",
	"let $x = $ in a | $x.b",
	"let $x = a, $x = b in $x",
	"let $x = @ in b[*].[$x.a]",
	// an undefined variable inside an expression reference is reported as such
	// once the built-in applies the reference to an element
	"sort_by(b, &$u)", "map(&$u, b)", "max_by(b, &$u)", "min_by(b, &$u)", "group_by(b, &$u)",
	"let $x = a in map(&[$x, $y], b)", "b[*].[map(&$u, [@])]", "let $x = a in sort_by(b, &[$x, $y][0])",
}

// H_C19_let: differential against the reference's environment-passing scopes.
func H_C19_let() {
	vrtSpec(tq(2, 3), 2, 1, "a,b", smASCII, nfInt, 0)
	vrtNumRange(0, 2)
	vrtNested(tq(1, 2))
	k := vrtChoose("expr", len(c19Exprs))
	expr := c19Exprs[k]
	vrtNote("template:" + expr)
	doc := vrtDoc("d", 3, uJSON, uJSON)
	if expr == "let $x = a in max_by(b, &(a || $x))" {
		// any extremal element is acceptable: only error class and membership are compared
		got, err := Search(expr, doc)
		want, ec := refSearch(expr, doc)
		if ec == ecUnspecified {
			return
		}
		if ec != ecNone {
			vrtAssert(err != nil && ecOfError(err) == ec, "error category differs from the specification: want "+ecNames[ec])
			return
		}
		vrtAssert(err == nil, "unexpected error")
		if err == nil && want == nil {
			vrtAssert(got == nil, "max_by of an empty array is null")
		}
		return
	}
	diffSearch(expr, doc, false)
}

// H_C19_exprefs: an expression reference evaluated by a built-in sees the
// bindings of the scope it was written in, for every element it is applied to
// (3 elements, string and number keys, every order of the keys).
var c19ExprefForms = []string{
	"let $k = k in max_by(b, &[s, $k][0])",
	"let $k = k in min_by(b, &[s, $k][0])",
	"let $k = k in sort_by(b, &[s, $k][0])",
	"let $k = k in map(&[s, $k], b)",
	"let $k = k in group_by(b, &[t, $k][0])",
	"let $k = k in b[*].[max_by(@.c, &[s, $k][0]), $k]",
	"let $k = k in max_by(b, &(let $j = s in [$j, $k][0]))",
	// a let whose bindings only mention other variables, evaluated once per element
	"map(&(let $v = @ in (let $w = $v in $w.s)), b)",
	"b[*].[let $v = s in (let $w = $v in $w)]",
	"b[?(let $v = s in (let $w = $v, $c = `1` in $w)) != b[0].s].t",
	"sort_by(b, &(let $v = @ in (let $w = $v in $w.s)))[*].t",
	// bindings end with the body of their let
	"let $x = k in [let $y = b in $y[0].s, $y]",
	"let $x = k, $z = k in let $x = b in [let $z = `1` in $z, $z, $x[0].s]",
	"let $x = k in b[*].[let $y = s in $y, $x] | [[1][0], $y]",
	"b[*].[let $y = s in $y][] | [@, let $x = k in $x, $x]",
}

var c19Perms = [][3]int{{0, 1, 2}, {0, 2, 1}, {1, 0, 2}, {1, 2, 0}, {2, 0, 1}, {2, 1, 0}}

func H_C19_exprefs() {
	f := vrtChoose("form", len(c19ExprefForms))
	perm := c19Perms[vrtChoose("perm", len(c19Perms))]
	numeric := vrtBool("numeric")
	elems := make([]any, 3)
	for i := range elems {
		var key any
		if numeric {
			key = int64(perm[i] + 1)
		} else {
			key = string(rune('x' + perm[i]))
		}
		elems[i] = map[string]any{"s": key, "t": string(rune('p' + perm[i])), "c": []any{map[string]any{"s": key}, map[string]any{"s": key}}}
	}
	doc := map[string]any{"k": "kk", "b": elems}
	expr := c19ExprefForms[f]
	vrtNote("template:" + expr)
	diffSearch(expr, doc, false)
}

// H_C19_deep: shadowing through 2..14 nested lets (scope chains that an
// implementation may flatten or cache beyond some depth): the innermost
// binding of a name wins, bindings of the levels in between stay visible.
func H_C19_deep() {
	d := 2 + vrtChoose("depth", 13)
	vrtSpec(2, 2, 1, "a,b", smASCII, nfInt, 0)
	vrtNumRange(0, 2)
	doc := vrtDoc("d", 2, uObj, uJNum|uStr|uNil)
	shadowAt := vrtChoose("shadow", 3) // where the second binding of $v sits: innermost, middle, none
	expr := "let $v = a in "
	for i := 1; i < d; i++ {
		name := "$w" + strconv.Itoa(i)
		if (shadowAt == 0 && i == d-1) || (shadowAt == 1 && i == (d+1)/2) {
			name = "$v"
		}
		expr += "let " + name + " = " + []string{"b", "`7`", "a"}[i%3] + " in "
	}
	expr += "[$v, $w1, a]"
	if d == 2 && shadowAt != 2 {
		expr = "let $v = a in let $v = b in [$v, a]"
	}
	vrtNote("template:shadowing through nested lets")
	diffSearch(expr, doc, false)
}
