#!/usr/bin/env python3
# Builds seeded/MATRIX.md from out/seedmatrix/<id>.txt (written by seedmatrix.sh)
# and records checks_run / caught_by in each seeded/<id>/meta.json.
import json, os, re
def key(i):
    p, n = i.split('-'); return (p, int(n))
rows = []
for sid in sorted(os.listdir('seeded'), key=lambda i: key(i) if '-' in i else ('', 0)):
    d = f'seeded/{sid}'
    if not os.path.isdir(d): continue
    meta = json.load(open(d + '/meta.json'))
    f = f'out/seedmatrix/{sid}.txt'
    if not os.path.exists(f):
        rows.append((sid, meta, None)); continue
    res = {}
    for l in open(f):
        m = re.match(rf'{sid} (C\d\d) violations=(\d+) notclaimed=(\d+)', l)
        if m: res[m.group(1)] = (int(m.group(2)), int(m.group(3)))
    meta['checks_run'] = [f'bin/vcheck run -p {p} -tier quick -repo <scratch worktree with the patch>' for p in res]
    meta['caught_by'] = [p for p, (v, n) in res.items() if v > 0]
    meta['missed_by'] = [p for p, (v, n) in res.items() if v == 0]
    json.dump(meta, open(d + '/meta.json', 'w'), indent=1)
    rows.append((sid, meta, res))
out = ['# Seeded defects and the checks that catch them', '',
       'Every row: a change written by an independent sub-agent that saw only the property text; confirmed to apply, build,',
       'keep the existing suite green and fail its demonstration (`seedconfirm.sh` / `seedtest.sh`, scratch worktree).',
       'Checks were run with `seedmatrix.sh` (quick tier, scratch worktree). `n` = number of VIOLATION lines, `0` = missed.',
       'Round 5 (ids ending in -8 / -9) was run with FAST=1 STOPAFTER=6: cheapest related check first, stop at the first check that',
       'catches the change, each harness stops exploring at six candidate findings - so counts are lower bounds and checks after the', 'first catch were not run.', '',
       '| seed | breaks | change | needs | quick checks run: violations |', '|---|---|---|---|---|']
miss = []
for sid, meta, res in rows:
    if res is None:
        # not re-run in this session: the outcome recorded in meta.json by the earlier run
        cb, mb = meta.get('caught_by', []), meta.get('missed_by', [])
        cell = ', '.join([f'**{p}: caught**' for p in cb] + [f'{p}: 0' for p in mb]) or 'not run'
        if not cb: miss.append(sid)
    else:
        cell = ', '.join(f'**{p}: {v}**' if v else f'{p}: 0' for p, (v, n) in res.items())
        if not any(v for v, n in res.values()): miss.append(sid)
    esc = lambda t: t.replace('|', '\\|').replace('\n', ' ')
    out.append(f"| {sid} | {meta['breaks_property']} | {esc(meta['change'])} | {esc(meta['needs_to_manifest'])} | {cell} |")
out += ['', f'{len(rows)} seeds; not caught by any quick check: {", ".join(miss) if miss else "none"}.']
open('seeded/MATRIX.md', 'w').write('\n'.join(out) + '\n')
print(len(rows), 'rows; missed:', miss)
