#!/usr/bin/env python3
# Regenerates MANIFEST.json from the table below (kept in one place so that it is always valid).
import json
claimed = json.load(open('/verif/claims.json'))
props = [json.loads(l) for l in open('/verif/properties.jsonl')]
checks = []
na = []
for p in props:
    pid = p['id']
    c = claimed.get(pid)
    if not c or not c.get('claimed'):
        na.append({"property_id": pid, "reason": (c or {}).get('reason', 'check not built yet in this session (solver-based harness pending)')})
        continue
    checks.append({
        "property_id": pid,
        "quick_cmd": f"bin/vcheck run -p {pid} -tier quick",
        "thorough_cmd": f"bin/vcheck run -p {pid} -tier thorough",
        "evidence_file": f"/verif/evidence/{pid}.json",
        "replay_cmd_template": "bin/vcheck replay {path}",
        "engine": "symgo",
        "level_claimed": {"category": "model_checking", "text": c['text'], "design_ref": c.get('design_ref', 'DESIGN.md section 4 ' + pid)},
        "level_note": c['note'],
        "technique": c.get('technique', "bounded symbolic execution of the real code from go/ssa; every branch and assertion decided by z3 (SMT, Int/Real with explicit wrap-around); counterexamples replayed natively"),
    })
m = {
    "version": 1,
    "setup_cmd": "cd /verif/engine && GOFLAGS=-mod=mod GOPROXY=off go build -o ../bin/vcheck ./cmd/vcheck && cd /verif && bin/vcheck selftest",
    "hooks": {"guard": "verif", "enable": "no hooks in /repo: harness sources are injected with go/packages and `go test -overlay` overlays (zz_verif_*.go)", "baseline_off_cmd": "cd /repo && go test -vet=off -count=1 ./...", "source_commits": [], "add_only": True},
    "engines": [{"name": "symgo", "path": "/verif/engine", "serves_properties": [c['property_id'] for c in checks], "kind_free_text": "symbolic executor for Go SSA (golang.org/x/tools/go/ssa) written for this task; SMT back end z3 4.8.12 via one long-lived `z3 -in` per worker; harnesses in /verif/harness are overlaid into /repo's root package; native replay of counterexamples via go test -overlay"}],
    "checks": checks,
    "not_applicable": na,
    "notes": "All checks rebuild SSA from /repo's working tree on every run. See DESIGN.md.",
}
json.dump(m, open('/verif/MANIFEST.json', 'w'), indent=1)
print(len(checks), 'claimed;', len(na), 'not claimed')
