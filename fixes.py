#!/usr/bin/env python3
# Regenerates the "fixed" list of known_findings.json from /repo's fix commits.
import json, subprocess
PROP = {
 "toInt no longer panics on a NaN": ("C03", "toInt called decimal128.Decimal.Int64 on a NaN decimal, which panics (find_first('a','a', <decimal NaN>))"),
 "find_first/find_last with end before start": ("C03", "find_first/find_last with 4 arguments sliced s[i:j] with i > j: find_first('abcdef','c',`4`,`2`) panicked (slice bounds out of range)"),
 "split with a count larger": ("C03", "split(s, sep, count) allocated count+1 slots: count 9223372036854775807 panicked in makeslice (also C09: allocation driven by the count; C02: split('abc','',`10`) padded the result with empty strings)"),
 "formatting the from_items key-type error": ("C03", "from_items([[null,1]]) returned an error whose Error() dereferenced a nil reflect.Type"),
 "string slices with a large step": ("C09", "'abc'[::4000000000] ran its skip loop step-1 times over the exhausted string (running time proportional to the step value)"),
 "object wildcard drops null members": ("C01", "* and a.* without right-hand side kept null members ({\"a\":null} | * gave [null])"),
 "a slice without further selectors omits null": ("C01", "a[1:] returned the raw sub-slice including null elements"),
 "selectors after a slice extend the projection": ("C01", "a[1:].b[0] indexed the projected array instead of projecting b[0] (right-hand side of a slice parsed with the binding power of '[')"),
 "a filter projection without a right-hand side omits null": ("C01", "[null][?@ == `null`] kept the null element"),
 "parse every projection right-hand side with one binding power": ("C01", "a[*].b.* was always null, a[?x].b.* likewise, a[?x].b[?y] filtered the projected array (right-hand sides cut off at '.*' / '[?')"),
 "sort rejects a single-element array": ("C13", "sort([null]) and sort([true]) returned their argument instead of invalid-type (also C02)"),
 "sort_by is stable": ("C13", "sort_by used sort.Sort: elements with equal keys were reordered for arrays longer than 12"),
 "integer arguments reject non-integral decimal": ("C02", "a decimal128.Decimal 1.5 passed as count/width/offset was truncated to 1 instead of invalid-value (also C14)"),
 "integer arguments accept integral JSON numbers": ("C14", "pad_left('a', `1.0`) / split(s, sep, `1e0`) were invalid-value although the same value as float or decimal was accepted (also C02)"),
 "find_first/find_last validate the end argument": ("C02", "find_first('', 'a', `1`, `null`) returned null instead of invalid-type: the end argument was not validated when the start was out of range"),
 "find_first/find_last with offsets return null for an empty": ("C02", "find_first('', '', `0`) was 0 and find_last('abc', '', `0`) was 3 instead of null"),
 "replace rejects a negative count": ("C02", "replace(s, old, new, `-1`) replaced all occurrences instead of raising invalid-value"),
 "find_first/find_last clamp an end offset": ("C11", "find_first('ééé','é',`1`,`4`) was null: the end offset (code points) was compared with the byte length"),
 "pad_left/pad_right measure width": ("C11", "pad_left('é', `2`) did not pad and a multi-byte pad character was rejected: lengths were measured in bytes"),
 "the lexer accepts the character U+FFFD": ("C16", "a correctly encoded U+FFFD in an expression (raw string, key or JSON literal) was rejected as an invalid rune (also C04)"),
 "a JSON literal that starts like a string": ("C04", "`\"abc` compiled to the empty string (inverted error test in parseJSONLiteral)"),
 "multi-select hash rejects non-identifier keys": ("C04", "{1: a} and {a: b c: d} compiled (switches without default in selectObject)"),
 "a slice must be closed after its step": ("C04", "foo[1:2:[0], foo[1:2:|a and an unterminated [:: compiled (third slice part unchecked)"),
 "a high surrogate escape in a quoted identifier": ("C04", "\"\\uD83Dzu0041\" compiled as U+FFFD (&& for ||, c >= 0 for c >= '0')"),
 "string slices with step 1 measure every code point": ("C12", "'\\x00\\U00041000'[:] returned two bytes (invalid UTF-8): the step-1 string slice decoded the first code point repeatedly (also C11)"),
 "parentheses end a projection also before a dotted field": ("C17", "(a[*].b).c continued the projection instead of equalling a[*].b | c (also C01)"),
 "raw control characters are not allowed in quoted identifiers": ("C04", "a quoted identifier containing a raw control character (e.g. NUL or newline) compiled"),
 "object wildcard after a multi-select inside a projection": ("C01", "a[*].{x: b}.* was [[],[]] instead of [[1],[2]]: parser.projection's continuation loop tested the wrong token and projected the object values twice"),
 "selectors continuing a projection's right-hand side": ("C01", "former known finding C01-F1: parser.projection's own selector loop mis-parsed what follows the first element of a right-hand side: x[*][1:], x[*][*], x[?a][?b] applied the second selector without its projection or were rejected, x[*].{k: a}.k and x[*][0].a let the dotted field replace the node built so far (also C17, C19, C04)"),
 "to_number of an empty string": ("C02", "to_number('') and to_number('null') were 0 (decimal128's UnmarshalJSON accepts both silently); found when triaging a sub-agent's remark, the reference had listed them as unspecified"),
 "a float argument equal to 2^63": ("C14", "find_first('abc','c', float64(2^63)) searched from the start (toInt's range check v > math.MaxInt is false for 2^63, int(v) wrapped to MinInt64) while uint64 / decimal 2^63 give the conversion error (also C02); found when triaging a sub-agent's remark: C14's extremes harness had excluded floats above 2^53 even when exactly representable"),
 "integer division of decimal operands floors": ("C14", "-7 // 2 was -4 for float64 operands (math.Floor) and -3 for JSON numbers, integers and decimals (truncating QuoRem): the result depended on the Go type carrying the numbers; C14's harness had restricted // to non-negative operands (remark of a sub-agent)"),
 "a unary sign binds tighter": ("C10", "-a // b and -a % b were parsed as -(a // b) and -(a % b) (operand of a unary sign parsed with the additive binding power); reported by C10's unary harness as soon as // floored for every number type (before, only float documents could tell the groupings apart, which two sub-agents had remarked)"),
 "to_number returns null for strings that are not JSON numbers": ("C02", "to_number('+1'), to_number('.5'), to_number('1.') and to_number('01') were numbers although the texts are not JSON numbers (decimal128's UnmarshalJSON accepts more than the json-number production); reported by H_C02_tonumber once the reference stopped treating such texts as unspecified (remark of a sub-agent)"),
 "a bare array wildcard over an array of nulls": ("C18", "Search(\"[*]\", [null]) and a[*] over an array of nulls returned a nil []any, which encoding/json serialises as null instead of [] (pruneArray left its result nil when no element survived); remark of a round-6 sub-agent, reported by H_C18_types once nil slices / maps counted as not plain JSON and bare selectors over all-null arrays were among its templates"),
 "multi-select on a null value": ("C01", "`null` | [@, @] was null while `null` | [@] is [null]; a[*].[b] and a[*].{k: b} kept entries for null elements (also C17)"),
}
log = subprocess.check_output(['git','-C','/repo','log','--format=%h %s','--reverse']).decode().splitlines()
fixed = []
for l in log:
    h, s = l.split(' ', 1)
    if not s.startswith('fix:'):
        continue
    for k, (p, what) in PROP.items():
        if k in s:
            fixed.append(f"fixed: property={p} {h} {what}")
            break
    else:
        print("UNMAPPED", l)
k = json.load(open('/verif/known_findings.json'))
k['fixed'] = fixed
json.dump(k, open('/verif/known_findings.json','w'), indent=1, ensure_ascii=False)
print(len(fixed), "fix commits recorded")
