#!/bin/bash
# seedmatrix.sh [ids...] : evaluates seeded defects in scratch worktrees (outside
# /repo and /verif) with `vcheck run -repo <worktree> -tag <id>` for the
# properties listed in each meta.json; writes out/seedmatrix/<id>.txt.
# Runs sequentially (each check uses all cores).
export GOFLAGS=-mod=mod GOPROXY=off
mkdir -p /verif/out/seedmatrix
ids="$@"; [ -z "$ids" ] && ids=$(ls /verif/seeded)
for id in $ids; do
  d=/verif/seeded/$id
  wt=/tmp/seedwt_$id
  rm -rf $wt; git -C /repo worktree prune; git -C /repo worktree add -q --detach $wt HEAD || continue
  if ! git -C $wt apply $d/patch.diff; then echo "$id: PATCH DOES NOT APPLY" | tee /verif/out/seedmatrix/$id.txt; git -C /repo worktree remove --force $wt; continue; fi
  # cheapest checks first (measured quick-tier cost), so that FAST=1 stops early
  props=$(python3 -c "
import json
cost={'C16':3,'C19':3,'C08':4,'C17':5,'C02':11,'C09':13,'C07':13,'C13':13,'C05':21,'C06':23,'C20':28,'C18':28,'C11':44,'C12':50,'C10':67,'C14':87,'C04':88,'C15':121,'C03':236,'C01':406}
print(' '.join(sorted(json.load(open('$d/meta.json'))['related_properties'],key=lambda p:cost.get(p,999))))")
  : > /verif/out/seedmatrix/$id.txt
  for p in $props; do
    # FAST=1: stop at the first check that catches the change
    if [ -n "${FAST:-}" ] && grep -q 'violations=[1-9]' /verif/out/seedmatrix/$id.txt; then break; fi
    out=$(cd /verif && timeout 1500 bin/vcheck run -p $p -tier quick -repo $wt -tag $id ${STOPAFTER:+-stopafter $STOPAFTER} 2>&1)
    nv=$(echo "$out" | grep -c '^VIOLATION')
    nc=$(echo "$out" | grep -c '^NOT-CLAIMED')
    echo "$id $p violations=$nv notclaimed=$nc $(echo "$out" | grep '^RESULT' | cut -c1-150)" | tee -a /verif/out/seedmatrix/$id.txt
    echo "$out" | grep "^VIOLATION\|^NOT-CLAIMED\|^ENCODING" | head -3 | cut -c1-250 >> /verif/out/seedmatrix/$id.txt
  done
  git -C /repo worktree remove --force $wt
  rm -rf /verif/out/scratch-$id /verif/out/overlay$id
done
